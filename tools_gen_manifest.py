#!/usr/bin/env python3
"""Regenerates MANIFEST.json from contracts/props.py (kept in the repo so the manifest stays in sync)."""
import json, sys
sys.path.insert(0, '/verif')
from contracts.props import PROPS

NA = {
 'C04': "agreement between Harper's offsets and node ranges of tree-sitter (C), pulldown-cmark and typst-syntax: external parsers cannot be given checked contracts; the Harper-side glue is str-byte/split/closure code outside Verus and too string-heavy for CBMC",
 'C05': "whole-history hyper-property over an external LruCache keyed by a 64-bit hash plus thread assignment; no function contract expresses it (false under hash collisions; Kani has no threads)",
 'C06': "statement about ~130k data-derived dictionary entries reached through hashbrown/foldhash ids and an FST; no contract can enumerate the data",
 'C07': "async tokio file I/O, restarts and crash points: neither Verus nor Kani has file-system or crash semantics",
 'C09': "schedules of concurrently polled async handlers behind tower-lsp; Kani has no concurrency, Verus would need a rewritten model",
 'C10': "absence of a side effect across the whole resolved dependency closure; not a function contract",
 'C11': "LintGroupConfig algebra lives on BTreeMap<String,_>: vstd has no obeys_cmp_spec axiom for String, values_mut/continue-in-for unsupported; CBMC on BTreeMap<String> intractable",
 'C12': "relational two-run property of the entire parse + rule pipeline; needs contracts on every rule",
 'C14': "correctness is SipHash collision-freedom plus re-tokenisation stability over hashbrown/DefaultHasher/iterator chains; every step would be an assumed contract",
 'C16': "histories over a wasm_bindgen object that rebuilds dictionaries and linters; its decidable kernels are exactly C03 (apply) and C13 (remove_overlaps)",
 'C18': "length preservation hinges on dictionary data (hash-identified canonical capitalisation); routine is peekable().enumerate() code needing a parsed Document",
 'C19': "the property is serde_json string escaping + BufRead::lines, both external; uuid/chrono values not Arbitrary; nothing of Harper's own left to contract",
}
TEXT = {
 'C01': ("proof", "Panic-freedom and termination are PROVED (Verus, unbounded) for the engine every rule and the plain-English front-end run on: all Span methods, 7 sub-lexers + dispatcher + tiling loop, the URL scanner, the Pattern trait contract (matches <= len) for 13 impls, run_on_chunk, find_all_matches, Wagner-Fischer rows, four condensing passes, Mask::push_allowed. Whitespace lexers and the JSDoc inline-tag scanner are checked by bounded Kani harnesses; Document::parse, Markdown and the comment front-ends by bounded runtime contract checks (all labelled bounded, not counted as proved). Rule bodies and external-parser front-ends are otherwise unverified.", "§3 C01"),
 'C02': ("proof", "PlainEnglish::parse (real body) is PROVED to return tokens that tile the text exactly (in bounds, ordered, disjoint, gap-free, non-empty) for all inputs, given the sub-lexer contracts (7 proved, 7 assumed of which 6 are Kani-bounded); lexical shape proved for decades, quotes, punctuation, regexish, catch-all; number-suffix letters proved for slices of every length; condense_spaces / condense_dotted_initialisms / condense_number_suffixes are PROVED to preserve the tiling; Space/Newline shape bounded (Kani); the remaining passes, quote twins and Markdown token order bounded (runtime contract checks). Other front-ends unverified.", "§3 C02"),
 'C03': ("proof", "Suggestion::apply (the real body, extracted mechanically) is PROVED equal to the mathematical splice for all (text, span, suggestion) with span inside the text; locality lemmas restate the property over that spec; run_on_chunk is proved to hand every rule a non-empty in-bounds sub-slice. LintGroup::lint (chunk cache) is checked by a bounded runtime contract check only. That every rule's span is inside the text is NOT proved.", "§3 C03"),
 'C08': ("model_checking", "BOUNDED model checking only (Kani/CBMC): index_to_position equals an independent reference and the position/span round trips hold for every text of length <= 3 (quick) / <= 5 (thorough) over a 6-symbol alphabet covering LF, CR, TAB, 1- and 2-unit UTF-16 characters and a combining mark. Diagnostics, code-action lookup and TextEdit construction are checked by a bounded runtime contract check on 14 texts. The final-line defect D4 is a known finding. Not a proof.", "§3 C08"),
 'C13': ("proof", "remove_overlaps (real body, R1-desugared) is PROVED for all inputs with well-formed spans: result is a sub-list of a permutation of the input, pairwise non-overlapping, every dropped lint starts inside a kept one, non-empty input gives non-empty output. Modulo the std sort specification and the remove_indices contract, whose body is checked by exhaustive bounded execution only.", "§3 C13"),
 'C15': ("proof", "edit_distance_min_alloc / edit_distance (real bodies) are PROVED to return the true Levenshtein distance (recursive spec function) for all strings of <= 254 chars with no overflow / out-of-bounds. MergedDictionary's four char-slice queries are PROVED to be the union / first-child-wins of their children. FST-vs-mutable agreement and fuzzy-search results are checked by a bounded runtime contract check only (all dictionaries of <= 3 of 9 words).", "§3 C15"),
 'C17': ("proof", "NumberSuffix::correct_suffix_for is PROVED (Kani, loop-free, full domain) to equal the English ordinal rule for every integer 0 <= n < 2^53; from_chars/to_chars PROVED for slices of every length (Verus) and all char pairs (Kani); the lint span arithmetic (last two characters) PROVED; the token-merging pass PROVED to keep the tokens tiling. The rule end to end (lexing, merging, lint span, suggestion, re-check) is checked by a bounded runtime contract check on 203 integers.", "§3 C17"),
}
NOTE = {
 'C01': "trusted: Verus/Z3/vstd, Kani/CBMC, std specs listed in contracts/trusted.py, desugarings R2; assumed: found_ok of 7 sub-lexers (6 bounded by Kani, lex_number unchecked), trait contract for the 12 Pattern impls not extracted, remove_indices contract",
 'C02': "trusted as C01; assumed: sub-lexer contracts as above; condensing passes not under contract",
 'C03': "trusted: Verus/Z3/vstd, Vec::extend spec (assume_specification), desugaring R1; unverified: all rule bodies producing spans",
 'C08': "bounded: text length <= 3/5, 6-symbol alphabet; 64-bit target; code-action construction not covered",
 'C13': "trusted: sort_by_key spec, tuple Ord axiom, size_of usize == 8, R1 + closure annotation; remove_indices body bounded-rac only",
 'C15': "trusted: Vec::extend/RangeInclusive iterator model; precondition len <= 254",
 'C17': "trusted: CBMC float model, 64-bit target; lex_number (std parse) unverified",
}
checks = []
for pid in sorted(PROPS):
    cat, text, ref = TEXT[pid]
    engines = []
    if PROPS[pid].get('verus'): engines.append('Verus')
    if PROPS[pid].get('kani_quick') or PROPS[pid].get('kani_thorough'): engines.append('Kani')
    if PROPS[pid].get('rac'): engines.append('bounded-rac')
    checks.append({
        'property_id': pid, 'quick_cmd': f'./check {pid} --tier quick', 'thorough_cmd': f'./check {pid} --tier thorough',
        'evidence_file': f'/verif/evidence/{pid}.json', 'replay_cmd_template': './check --replay {path}', 'engine': '+'.join(engines),
        'level_claimed': {'category': cat, 'text': text, 'design_ref': 'DESIGN.md ' + ref}, 'level_note': NOTE[pid],
        'technique': ('contract-based deductive verification (Verus) of mechanically extracted real code' if 'Verus' in engines else 'Kani function-level harnesses on the real code (bounded stand-in)')
                     + ('; Kani complete loop-free harnesses' if pid == 'C17' else '') + ('; Kani bounded harnesses for functions outside Verus' if pid in ('C01', 'C02') else ''),
    })
m = {
 'version': 1,
 'setup_cmd': './setup.sh',
 'hooks': {'guard': 'none', 'enable': 'no hooks in /repo: checks read /repo sources and build scratch overlays (append-only, #[cfg(kani)] / #[cfg(test)] modules) outside /repo',
           'baseline_off_cmd': 'cd /repo && RUSTUP_TOOLCHAIN=stable-x86_64-unknown-linux-gnu cargo test --workspace --no-fail-fast --offline', 'source_commits': [], 'add_only': True},
 'engines': [
  {'name': 'vx (Verus units extracted from /repo on every run)', 'path': '/verif/vx', 'serves_properties': [p for p in sorted(PROPS) if PROPS[p].get('verus')],
   'kind_free_text': 'contract-based deductive verification: mechanical extraction of the real functions + spliced requires/ensures/invariants, discharged by Verus/Z3'},
  {'name': 'kani overlay', 'path': '/verif/kani', 'serves_properties': [p for p in sorted(PROPS) if PROPS[p].get('kani_quick')],
   'kind_free_text': 'Kani harnesses appended (cfg(kani)) to a scratch copy of /repo: complete loop-free full-domain proofs, or bounded stand-ins labelled as such'},
  {'name': 'rac overlay', 'path': '/verif/rac', 'serves_properties': [p for p in sorted(PROPS) if PROPS[p].get('rac')], 'kind_free_text': 'runtime contract checks against the real code (cfg(test) overlay): counterexample search after a failed obligation; bounded stand-in for remove_indices'},
 ],
 'checks': checks,
 'not_applicable': [{'property_id': k, 'reason': v} for k, v in sorted(NA.items())],
 'notes': 'exit 2 = undecided (anchor lost / unsupported construct / solver limit / only a proof hint fails and no failing input exists within the RAC bound), never an alarm. Fix commits in /repo: ccc1c2a (D1 Invert), 1b8b2a1 (D2 jsdoc), 903b462 (D3 dotted initialisms), 70ec15d (D6 number suffix). Known finding: D4 (pos_conv final line), see known_findings.txt.',
}
json.dump(m, open('/verif/MANIFEST.json', 'w'), indent=1)
print('MANIFEST.json written:', [c['property_id'] for c in checks])
