#!/usr/bin/env python3
"""Regenerates MANIFEST.json from contracts/props.py (kept in the repo so the manifest stays in sync)."""
import json, sys
sys.path.insert(0, '/verif')
from contracts.props import PROPS

NA = {
 'C05': "whole-history hyper-property over an external LruCache keyed by a 64-bit hash plus thread assignment; no function contract expresses it (false under hash collisions; Kani has no threads)",
 'C07': "async tokio file I/O, restarts and crash points: neither Verus nor Kani has file-system or crash semantics",
 'C09': "schedules of concurrently polled async handlers behind tower-lsp; Kani has no concurrency, Verus would need a rewritten model",
 'C10': "absence of a side effect across the whole resolved dependency closure; not a function contract",
}
TEXT = {
 'C01': ("proof", "Panic-freedom and termination are PROVED (Verus, unbounded) for the engine every rule and the plain-English front-end run on: all Span methods, 12 sub-lexers (incl. the white-space, hostname and e-mail lexers through desugarings R7/R10/R11) + dispatcher + tiling loop, the URL scanner, VecExt::remove_indices (R9), Document::match_quotes, the line-based comment parsers (Unit / Go / JsDoc / JavaDoc::parse, parse_line), GitCommitParser, HtmlParser, LiterateHaskellMasker::create_mask, the Pattern trait contract (matches <= len) for 13 impls, run_on_chunk, find_all_matches, Wagner-Fischer rows, four condensing passes, Mask::push_allowed / merge_whitespace_sep, and parsers::Mask<M,P>::parse (the composition behind every masked front-end). The white-space lexers and the JSDoc inline-tag scanner are additionally run through bounded Kani harnesses; Document::parse, Markdown, Typst, Literate Haskell and the comment front-ends by bounded runtime contract checks (all labelled bounded, not counted as proved). Rule bodies and external-parser front-ends are otherwise unverified.", "§3 C01"),
 'C02': ("proof", "PlainEnglish::parse (real body) is PROVED to return tokens that tile the text exactly (in bounds, ordered, disjoint, gap-free, non-empty) for all inputs, given the sub-lexer contracts (14 proved; assumed: lex_number); lexical shape proved for spaces / tabs / newlines (only that character), decades, quotes, punctuation, regexish, catch-all; Document::match_quotes PROVED to leave every quote pointing at another existing quote that points back; number-suffix letters proved for slices of every length; condense_spaces / condense_newlines / condense_dotted_initialisms / condense_number_suffixes are PROVED to preserve the tiling, VecExt::remove_indices (the deletion helper they use) PROVED to delete exactly the listed positions; parsers::Mask<M,P>::parse is PROVED to return in-bounds, ordered, non-overlapping tokens for the whole file given the Masker and inner-Parser trait contracts; Space/Newline shape also Kani-bounded; the remaining passes and Markdown token order bounded (runtime contract checks). Other front-ends unverified.", "§3 C02"),
 'C03': ("proof", "Suggestion::apply (the real body, extracted mechanically) is PROVED equal to the mathematical splice for all (text, span, suggestion) with span inside the text; locality lemmas restate the property over that spec; run_on_chunk is proved to hand every rule a non-empty in-bounds sub-slice. LintGroup::lint (chunk cache) is checked by a bounded runtime contract check only. That every rule's span is inside the text is NOT proved.", "§3 C03"),
 'C08': ("model_checking", "PROVED (Verus, unit pos_conv, desugarings R12/R13): index_to_position and span_to_range return exactly the reference LSP position (LF count, UTF-16 units since the last LF) for every text shorter than 2^31 characters and every in-range index; positions are strictly increasing in the index, so a non-empty span gives a non-empty ordered range; position_to_index / range_to_span are PROVED to invert them for every index on an LF-terminated line or in a text without LF (the final line of a text with LF is the known finding D4). BOUNDED model checking (Kani/CBMC) in addition: index_to_position equals an independent executable reference and the position/span round trips hold for every text of length <= 3 (quick) / <= 5 (thorough) over an 8-symbol alphabet covering LF, CR, 1- and 2-unit UTF-16 characters, a combining mark, a zero-width character and a character whose low byte is 0x0A. Diagnostics, code-action lookup and TextEdit construction are checked by a bounded runtime contract check on 19 texts. The final-line defect D4 is a known finding. Not a proof.", "§3 C08"),
 'C13': ("proof", "remove_overlaps (real body, R1-desugared) is PROVED for all inputs with well-formed spans: result is a sub-list of a permutation of the input, pairwise non-overlapping, every dropped lint starts inside a kept one, non-empty input gives non-empty output. VecExt::remove_indices (real body, R9-desugared Vec::retain) is PROVED to delete exactly the listed positions. Modulo the std sort specification and the documented behaviour of Vec::retain.", "§3 C13"),
 'C15': ("proof", "edit_distance_min_alloc / edit_distance (real bodies) are PROVED to return the true Levenshtein distance (recursive spec function) for all strings of <= 254 chars with no overflow / out-of-bounds. MergedDictionary's four char-slice queries are PROVED to be the union / first-child-wins of their children. FST-vs-mutable agreement and fuzzy-search results are checked by a bounded runtime contract check only (all dictionaries of <= 3 of 9 words).", "§3 C15"),
 'C17': ("proof", "NumberSuffix::correct_suffix_for is PROVED (Kani, loop-free, full domain) to equal the English ordinal rule for every integer 0 <= n < 2^53; from_chars/to_chars PROVED for slices of every length (Verus) and all char pairs (Kani); the lint span arithmetic (last two characters) PROVED; the token-merging pass PROVED to keep the tokens tiling. The rule end to end (lexing, merging, lint span, suggestion, re-check) is checked by a bounded runtime contract check on 221 integers at 8 positions.", "§3 C17"),
}
TEXT.update({
 'C04': ("exploration", "The composition step every masked front-end runs through, parsers::Mask<M,P>::parse, is PROVED (Verus) to shift chunk tokens to their place in the file, keep them in order and emit nothing but structural breaks outside the spans the masker allowed, given the Masker / inner-Parser trait contracts; the line-based comment parsers (Unit / Go / JsDoc / JavaDoc::parse, parse_line), GitCommitParser and HtmlParser are PROVED to return in-bounds ordered tokens moved to their line's offset (given the inner-Parser contract and without_initiators' contract), LiterateHaskellMasker::create_mask is PROVED to meet the Masker contract (abstraction A1 for its str tests); Mask::push_allowed and merge_whitespace_sep are proved to keep masks well formed. The front-ends themselves wrap external parsers: they are covered by a BOUNDED runtime check only - files assembled from segments with known prose words (7 languages + Markdown, multi-byte text in code and comments, CR LF, indentation, ignore markers, inline code): the Word tokens are exactly the declared words at their declared offsets.", "§3 C04"),
 'C06': ("exploration", "BOUNDED runtime check of the contract of SpellCheck::lint against Dictionary::words_iter (data-dependent; nothing proved): every (quick: every 4th) curated entry the lexer reads as one word, in its listed, capitalised and upper-case form, alone and inside a sentence, American and British dialect, is not reported; mutated non-words are reported exactly once with the exact span and every suggestion is a dictionary word of the dialect.", "§3 C06"),
 'C12': ("exploration", "BOUNDED runtime check of the relational contract lint(P ++ D) == lint(P) ++ shift(lint(D), |P|) (whole pipeline; nothing proved) on 110 x 63 pairs of harvested rule-test sentences, P quote-free and terminated, all curated rules on.", "§3 C12"),
 'C16': ("exploration", "BOUNDED runtime check of the invariant and operation contracts of harper_wasm::Linter, run natively (nothing proved): spans in bounds and disjoint, problem text exact, JSON round trips, apply_suggestion == splice, ignore/export/clear/import, custom words, configuration overlay undone, to_title_case - on scripted call sequences over 30 texts x 2 languages.", "§3 C16"),
 'C11': ("exploration", "BOUNDED runtime check of the contract of LintGroup::lint with respect to its configuration (no verifier reaches BTreeMap<String,_>/LruCache code; nothing proved): on sampled rule-test sentences x every curated rule, all-off reports nothing, the curated configuration equals the union of its rules run one by one, switching a firing rule off removes exactly its lints, random bipartitions compose; 256 user configurations overlay onto the curated defaults with explicit choices winning, unknown names harmless, JSON round trip; merge_from for all sampled pairs.", "§3 C11"),
 'C14': ("exploration", "BOUNDED runtime check of the contract of IgnoredLints (hash-based; nothing proved): for every lint of every harvested rule-test sentence, ignoring it hides it and only lints with the same kind, message, suggestions and flagged text, export/import hides the same set, and it stays hidden when a paragraph is inserted before or appended after the text.", "§3 C14"),
 'C18': ("exploration", "BOUNDED runtime check of the contract of make_title_case_str (dictionary-data dependent iterator code; nothing proved): every text of <= 3 of 34 fragments (+ 4 of 12) through the plain-English front-end: same length, only letter case (or apostrophe variant) changes, first word-like token capitalised, idempotent.", "§3 C18"),
 'C19': ("exploration", "BOUNDED runtime check of the contract read(write(a) ++ write(b)) == a ++ b of the statistics log (serde_json + BufRead::lines are external; nothing proved): every captured text of <= 3 of 16 hostile fragments, every kind of context token and LintKind, configuration records, all batch pairs from 61 batches; summarize counts every lint record once.", "§3 C19"),
})
NOTE = {
 'C01': "trusted: Verus/Z3/vstd, Kani/CBMC, std specs listed in contracts/trusted.py, desugarings R1-R20; assumed: found_ok of lex_number (checked by no verifier), trait contract for the 12 Pattern impls not extracted, stub iterators for paste!-generated adapters",
 'C02': "trusted as C01; assumed: sub-lexer contracts as above; condense_indices (peekable body) bounded-rac only; pattern-based condensing passes not under contract",
 'C03': "trusted: Verus/Z3/vstd, Vec::extend spec (assume_specification), desugaring R1; unverified: all rule bodies producing spans",
 'C08': "proved part: texts < 2^31 chars, trusted char::len_utf16 / Option::copied specs, desugarings R12/R13; bounded part: text length <= 3/5, 8-symbol alphabet; 64-bit target; code-action construction not covered",
 'C13': "trusted: sort_by_key spec, tuple Ord axiom, size_of usize == 8, R1 + closure annotation; R9 (Vec::retain = closure once per element in order, survivors = elements answered true)",
 'C15': "trusted: Vec::extend/RangeInclusive iterator model; precondition len <= 254",
 'C17': "trusted: CBMC float model, 64-bit target; lex_number (std parse) unverified",
 'C04': "proved: Mask::parse composition + mask operations (modulo trait contracts, stub iterator); bounded: 7 languages + Markdown, <= 3 of <= 14 segments",
 'C06': "bounded: single-token curated entries, 2 dialects, one carrier sentence; quick = every 4th entry; no proof",
 'C12': "bounded: 110 first paragraphs x 63 continuations from the harvested rule-test sentences; plain English; no proof",
 'C16': "bounded: scripted call sequences over 30 texts x 2 languages, American dialect; no proof",
 'C11': "bounded: sampled sentences x all rules, 3 random bipartitions per sentence, 256 user configurations; no proof",
 'C14': "bounded: every lint of the harvested rule-test sentences; two edits (prepend / append a paragraph); no proof",
 'C18': "bounded: <= 3 of 34 fragments + 4 of 12; plain English; curated dictionary; no proof",
 'C19': "bounded: captured text <= 3 of 16 fragments; batch pairs over a pool of 40 records; no proof",
}
checks = []
for pid in sorted(PROPS):
    cat, text, ref = TEXT[pid]
    engines = []
    if PROPS[pid].get('verus'): engines.append('Verus')
    if PROPS[pid].get('kani_quick') or PROPS[pid].get('kani_thorough'): engines.append('Kani')
    if PROPS[pid].get('rac'): engines.append('bounded-rac')
    checks.append({
        'property_id': pid, 'quick_cmd': f'./check {pid} --tier quick', 'thorough_cmd': f'./check {pid} --tier thorough',
        'evidence_file': f'/verif/evidence/{pid}.json', 'replay_cmd_template': './check --replay {path}', 'engine': '+'.join(engines),
        'level_claimed': {'category': cat, 'text': text, 'design_ref': 'DESIGN.md ' + ref}, 'level_note': NOTE[pid],
        'technique': ('contract-based deductive verification (Verus) of mechanically extracted real code' if 'Verus' in engines else
                      'Kani function-level harnesses on the real code (bounded stand-in)' if 'Kani' in engines else
                      'bounded runtime check of the function contract on the real code (stand-in for functions outside the reach of Verus and Kani; labelled bounded, nothing proved)')
                     + ('; Kani complete loop-free harnesses' if pid == 'C17' else '') + ('; Kani bounded harnesses for functions outside Verus' if pid in ('C01', 'C02') else '')
                     + ('; Kani bounded harnesses (model checking of the real code) for position_to_index / range_to_span and the round trips' if pid == 'C08' else ''),
    })
m = {
 'version': 1,
 'setup_cmd': './setup.sh',
 'hooks': {'guard': 'none', 'enable': 'no hooks in /repo: checks read /repo sources and build scratch overlays (append-only, #[cfg(kani)] / #[cfg(test)] modules) outside /repo',
           'baseline_off_cmd': 'cd /repo && RUSTUP_TOOLCHAIN=stable-x86_64-unknown-linux-gnu cargo test --workspace --no-fail-fast --offline', 'source_commits': [], 'add_only': True},
 'engines': [
  {'name': 'vx (Verus units extracted from /repo on every run)', 'path': '/verif/vx', 'serves_properties': [p for p in sorted(PROPS) if PROPS[p].get('verus')],
   'kind_free_text': 'contract-based deductive verification: mechanical extraction of the real functions + spliced requires/ensures/invariants, discharged by Verus/Z3'},
  {'name': 'kani overlay', 'path': '/verif/kani', 'serves_properties': [p for p in sorted(PROPS) if PROPS[p].get('kani_quick')],
   'kind_free_text': 'Kani harnesses appended (cfg(kani)) to a scratch copy of /repo: complete loop-free full-domain proofs, or bounded stand-ins labelled as such'},
  {'name': 'rac overlay', 'path': '/verif/rac', 'serves_properties': [p for p in sorted(PROPS) if PROPS[p].get('rac')], 'kind_free_text': 'runtime contract checks against the real code (cfg(test) overlay): counterexample search after a failed obligation; bounded stand-ins (labelled bounded) for functions outside the reach of both verifiers'},
 ],
 'checks': checks,
 'not_applicable': [{'property_id': k, 'reason': v} for k, v in sorted(NA.items())],
 'notes': 'exit 2 = undecided (anchor lost / unsupported construct / solver limit / only a proof hint fails and no failing input exists within the RAC bound), never an alarm. Eighteen fix commits in /repo (D1-D3, D6-D20) and nine known findings (D4 pos_conv final line, D5 edit distance beyond 254 chars, D21-D25 comment front-ends offering fenced / directive / <pre> text as prose, D26-D27 ordinals followed by a possessive or inside square brackets) are listed in known_findings.txt and DESIGN.md section 4.',
}
json.dump(m, open('/verif/MANIFEST.json', 'w'), indent=1)
print('MANIFEST.json written:', [c['property_id'] for c in checks])
