"""Unit `jsdoc` (C01): parse_inline_tag terminates, stays inside its slice and returns a position inside it - for token slices of EVERY length (the Kani harnesses jsdoc.parse_inline_tag_N bound it to N <= 6)."""
from vx.extract import Unit
from . import common

NAME = 'jsdoc'
F = 'harper-comments/src/comment_parsers/jsdoc.rs'


def build(repo):
    U = Unit(NAME, repo)
    U.header = common.HEADER
    common.add_span(U, [], props=('C01',))
    common.add_tokens(U)
    U.fn(F, 'parse_inline_tag', dict(
        result='r', props=['C01'], slice_matches=True,
        ensures=['r matches Some(p) ==> 1 <= p <= tokens@.len()'],
        loops={1: dict(invariant=['3 <= cursor <= tokens@.len()'], decreases='tokens@.len() - cursor')}))
    U.raw(common.FOOTER)
    return U
