"""Unit `jsdoc` (C01, C02, C04): harper-comments/src/comment_parsers/jsdoc.rs.
* parse_inline_tag terminates, stays inside its slice and returns a position inside it - for token slices of EVERY length (the Kani
  harnesses jsdoc.parse_inline_tag_N bound it to N <= 6);
* mark_inline_tags terminates, never slices out of range, and rewrites token kinds only (spans and length untouched);
* parse_line (the JSDoc one) returns in-bounds ordered tokens of its line, given the inner parser's contract: no `len() - 1` style underflow,
  no out-of-range sub-slice when a block tag is found, spans moved behind the comment markers.
Desugarings: R6 (slice pattern), R8 over a sub-slice (`for tok in &mut tokens[a..b]`), R16 (`tuple_windows().position(..)`), a closure annotation
(`.map(|i| i + cursor)`); abstraction A1 for the `==` test on a TokenKind inside the search closure."""
from vx.extract import Unit
from . import common
from .mask_parser import SPEC as TOKS_SPEC
from .comments import PRELUDE

NAME = 'jsdoc'
F = 'harper-comments/src/comment_parsers/jsdoc.rs'
C = 'harper-comments/src/comment_parsers/'

VOCAB = '''
pub open spec fn same_spans(a: Seq<Token>, b: Seq<Token>) -> bool { a.len() == b.len() && forall|j: int| 0 <= j < a.len() ==> (#[trigger] a[j]).span == b[j].span }
pub proof fn lemma_same_spans_ok(a: Seq<Token>, b: Seq<Token>, n: int)
    requires same_spans(a, b), toks_ok(b, n),
    ensures toks_ok(a, n),
{
    assert forall|i: int| 0 <= i < a.len() implies span_in(#[trigger] a[i].span, n) by { assert(span_in(b[i].span, n)); }
    assert forall|i: int, j: int| 0 <= i < j < a.len() implies #[trigger] a[i].span.end <= #[trigger] a[j].span.start by { assert(b[i].span.end <= b[j].span.start); }
}
// abstraction A1: the value of a boolean test that plays no role in the proved clauses
#[verifier::external_body]
pub fn any_bool() -> bool { unimplemented!() }
'''

MARK_INLINE_TAGS_CONTRACT = dict(ensures=['same_spans(final(tokens)@, old(tokens)@)'])
MARK_INLINE_TAGS = dict(
    props=['C01', 'C02'], **MARK_INLINE_TAGS_CONTRACT,
    opaque_bools=['t.kind == TokenKind::Punctuation(Punctuation::OpenCurly)'],
    closures=[dict(params='|i|', typed_params='|i: usize|', result='k: usize', requires='i + cursor <= usize::MAX', ensures='k == i + cursor')],
    loops={1: dict(invariant=['same_spans(tokens@, old(tokens)@)'], decreases='tokens@.len() - cursor + 1'),
           2: dict(desugar='R8', invariant=['__i <= __end <= tokens@.len()', 'same_spans(tokens@, old(tokens)@)'], decreases='__end - __i')},
)

PARSE_LINE_CONTRACT = dict(result='r', ensures=['toks_ok(r@, source@.len() as int)'])
PARSE_LINE = dict(
    props=['C01', 'C02', 'C04'], **PARSE_LINE_CONTRACT,
    windows_position=True,
    loops={1: dict(desugar='R8', invariant=['__i <= __end', '__end == new_tokens@.len()', 'same_spans(new_tokens@, nt0)'], decreases='__end - __i'),
           2: dict(desugar='R8', invariant=['actual_line.start <= actual_line.end', 'actual_line.end <= src0.len()', 'new_tokens@.len() == nt1.len()', 'toks_ok(nt1, actual_line.end - actual_line.start)',
                                            'forall|j: int| __i <= j < new_tokens@.len() ==> new_tokens@[j] == nt1[j]',
                                            'forall|j: int| 0 <= j < __i ==> (#[trigger] new_tokens@[j]).span.start == nt1[j].span.start + actual_line.start && new_tokens@[j].span.end == nt1[j].span.end + actual_line.start'],
                   decreases='new_tokens@.len() - __i')},
    proofs=[dict(at='body_start', kind='ghost', text='let ghost src0 = source@;'),
            dict(after='let mut new_tokens', kind='ghost', text='let ghost nt0 = new_tokens@;'),
            dict(before='for token in new_tokens', text='lemma_same_spans_ok(new_tokens@, nt0, actual_line.end - actual_line.start);'),
            dict(before='for token in new_tokens', kind='ghost', text='let ghost nt1 = new_tokens@;'),
            dict(at='loop_body_start', loop=2, text='assert(span_in(nt1[__i - 1].span, actual_line.end - actual_line.start));'),
            dict(before='new_tokens', text='''
        assert forall|j: int| 0 <= j < new_tokens@.len() implies span_in((#[trigger] new_tokens@[j]).span, src0.len() as int) by { assert(span_in(nt1[j].span, actual_line.end - actual_line.start)); }
        assert forall|i: int, j: int| 0 <= i < j < new_tokens@.len() implies (#[trigger] new_tokens@[i]).span.end <= (#[trigger] new_tokens@[j]).span.start by { assert(nt1[i].span.end <= nt1[j].span.start); }''')],
)


def build(repo):
    U = Unit(NAME, repo)
    U.header = common.HEADER
    common.add_span(U, list(common.SPAN_FNS), props=('C01',))
    common.add_tokens(U)
    U.raw(PRELUDE, name='trusted:prelude')
    U.raw(TOKS_SPEC, name='spec:toks_ok')
    U.raw(common.POSITION_SPEC, name='trusted:position')
    U.raw(VOCAB, name='lemmas:same_spans', props=['C02'])
    U.trait('harper-core/src/parsers/mod.rs', 'trait Parser', {'parse': dict(result='r', ensures=['toks_ok(r@, source@.len() as int)', 'self.sp_det() ==> r@ == self.sp_parse(source@)'],
                                                                             note='the front-end contract of C02; proved for PlainEnglish in unit lexing')},
            cfg_not='cfg(feature="concurrent")',
            extra_members='    spec fn sp_parse(&self, source: Seq<char>) -> Seq<Token>;\n    spec fn sp_det(&self) -> bool;')
    U.fn(C + 'mod.rs', 'without_initiators', dict(
        result='r', external_body=True, props=['C01', 'C02', 'C04'], ensures=['r.start <= r.end', 'r.end <= source@.len()'],
        assumed='r.start <= r.end <= |source|', note='see unit comments'))
    U.fn(F, 'parse_inline_tag', dict(
        result='r', props=['C01'], slice_matches=True,
        ensures=['r matches Some(p) ==> 1 <= p <= tokens@.len()'],
        loops={1: dict(invariant=['3 <= cursor <= tokens@.len()'], decreases='tokens@.len() - cursor')}))
    U.fn(F, 'mark_inline_tags', MARK_INLINE_TAGS)
    U.fn(F, 'parse_line', PARSE_LINE)
    U.raw(common.FOOTER)
    return U
