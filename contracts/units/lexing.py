"""Unit `lexing` (C01, C02): sub-lexer result bounds, the dispatcher, and the plain-English tiling loop."""
from vx.extract import Unit
from . import common

NAME = 'lexing'
L = 'harper-core/src/lexing/mod.rs'

VOCAB = '''
// what every sub-lexer owes the tiling loop: a hit consumes at least one and at most |src| chars
pub open spec fn found_ok(src: Seq<char>, r: Option<FoundToken>) -> bool {
    match r { Some(f) => 1 <= f.next_index <= src.len(), None => true }
}
// plain-English tokens tile [0, upto): in bounds, ordered, disjoint, gap-free, non-empty
pub open spec fn tiles(toks: Seq<Token>, upto: int) -> bool {
    &&& (toks.len() == 0 ==> upto == 0)
    &&& (toks.len() > 0 ==> toks[0].span.start == 0 && toks[toks.len() - 1].span.end == upto)
    &&& forall|i: int| 0 <= i < toks.len() ==> (#[trigger] toks[i]).span.start < toks[i].span.end
    &&& forall|i: int| 0 <= i < toks.len() - 1 ==> toks[i].span.end == #[trigger] toks[i + 1].span.start
}
'''

TILES_LEMMAS = '''
// tiling implies the weaker statements of C02: inside the text, increasing, non-overlapping
pub proof fn lemma_tiles_mono(t: Seq<Token>, n: int, i: int, j: int)
    requires tiles(t, n), 0 <= i <= j < t.len(),
    ensures t[i].span.start <= t[j].span.start, t[i].span.end <= t[j].span.end,
            i < j ==> t[i].span.end <= t[j].span.start,
    decreases j - i,
{
    if i < j {
        lemma_tiles_mono(t, n, i, j - 1);
        assert(t[j - 1].span.end == t[j - 1 + 1].span.start);
        assert(t[j - 1].span.start < t[j - 1].span.end);
        assert(t[j].span.start < t[j].span.end);
    }
}
pub proof fn lemma_tiles_in_bounds_ordered(t: Seq<Token>, n: int)
    requires tiles(t, n),
    ensures toks_in(t, n), ordered(t),
{
    assert forall|i: int| 0 <= i < t.len() implies span_in(#[trigger] t[i].span, n) by {
        lemma_tiles_mono(t, n, i, t.len() - 1);
    }
    assert forall|i: int, j: int| 0 <= i < j < t.len() implies #[trigger] t[i].span.end <= #[trigger] t[j].span.start by {
        lemma_tiles_mono(t, n, i, j);
    }
}
'''

STD = '''
// ---- trusted std: char classification predicates are total, pure bool functions ----
pub assume_specification [char::is_alphanumeric](c: char) -> (b: bool);
pub assume_specification [char::is_numeric](c: char) -> (b: bool);
pub assume_specification [char::is_ascii_digit](c: &char) -> (b: bool)
    ensures b == ('0' <= *c && *c <= '9');
pub assume_specification [char::is_ascii_alphanumeric](c: &char) -> (b: bool);
pub assume_specification [char::is_ascii_hexdigit](c: &char) -> (b: bool);
// slice::Iter::position: a hit is an index into what was left of the iterator
pub assume_specification<'a, T, P: FnMut(&'a T) -> bool> [<core::slice::Iter<'a, T> as Iterator>::position] (it: &mut core::slice::Iter<'a, T>, pred: P) -> (r: Option<usize>)
    where core::slice::Iter<'a, T>: Sized
    ensures match r { Some(i) => i < old(it).remaining().len(), None => true };
// a Rust allocation (hence a slice) occupies at most isize::MAX bytes and a char is 4 bytes wide, so a [char] has at most
// isize::MAX / 4 <= usize::MAX / 8 elements (lex_tabs computes `count * 2`)
#[verifier::external_body]
pub broadcast proof fn axiom_char_slice_bytes(s: &[char])
    ensures #[trigger] s@.len() * 8 <= usize::MAX {}
pub trait CharExt { fn is_english_lingual(&self) -> bool; }
impl CharExt for char { #[verifier::external_body] fn is_english_lingual(&self) -> bool { unimplemented!() } }
'''

FOUND = dict(result='r', ensures=['found_ok({s}@, r)'])


def found(src='source', props=('C01', 'C02'), extra=(), **kw):
    d = dict(result='r', ensures=[f'found_ok({src}@, r)'] + list(extra), props=list(props))
    d.update(kw)
    return d


def assumed(src, how):
    return dict(result='r', ensures=[f'found_ok({src}@, r)'], external_body=True, props=['C01', 'C02'],
                assumed=f'found_ok({src}, r): 1 <= next_index <= |{src}| on a hit', note=how)


def build(repo):
    U = Unit(NAME, repo)
    U.header = common.HEADER
    common.add_span(U, ['new'], props=('C01', 'C02'))
    U.raw('#[verifier::external_body] pub struct WordMetadata { _p: u8 }\n' + common.OPAQUE_NUMBER, name='opaque-types')
    U.item('harper-core/src/currency.rs', 'enum Currency', derive=())
    U.impl('harper-core/src/currency.rs', 'impl Currency', {'from_char': dict(props=['C02'])})
    U.item('harper-core/src/punctuation.rs', 'struct Quote', derive=())
    U.item('harper-core/src/punctuation.rs', 'enum Punctuation', derive=())
    U.impl('harper-core/src/punctuation.rs', 'impl Punctuation', {'from_char': dict(props=['C02'])})
    U.item('harper-core/src/token_kind.rs', 'enum TokenKind', derive=())
    U.item('harper-core/src/token.rs', 'struct Token', derive=())
    U.raw(common.TOKEN_VOCAB, name='lemmas:tokens', props=['C02'])
    U.item(L, 'struct FoundToken', derive=())
    U.raw(VOCAB, name='spec:tiles')
    U.raw(TILES_LEMMAS, name='lemmas:tiles', props=['C02'])
    U.raw(STD, name='trusted:char')
    # --- sub-lexers verified verbatim
    # Shape clauses are kept to what C02 states ("the text under each token has the lexical shape of its kind": word /
    # space / number / punctuation / quotes); how many characters a decade or a regex-ish token spans, or which characters
    # count as quotes, is lexer policy and deliberately NOT part of the contracts (an earlier version pinned them).
    U.fn(L, 'lex_regexish', found('src', extra=['r.is_some() ==> r.unwrap().token is Regexish'],
                                  loops={1: dict(invariant=['1 <= i <= l', 'l == src@.len()'], ensures=['i < l'], decreases='l - i')}))
    U.fn(L, 'lex_long_decade', found(extra=['r.is_some() ==> r.unwrap().token is Decade']))
    U.fn(L, 'lex_plural_digit', found('src', extra=['r.is_some() ==> r.unwrap().token is Word']))
    U.fn(L, 'lex_quote', found(extra=['r.is_some() ==> r.unwrap().token is Punctuation']))
    U.fn(L, 'lex_punctuation', found(extra=['r.is_some() ==> r.unwrap().token is Punctuation']))
    U.fn(L, 'lex_catch', dict(result='r', props=['C01', 'C02'],
                              ensures=['r.is_some()', 'r.unwrap().next_index >= 1', '_source@.len() >= 1 ==> r.unwrap().next_index <= _source@.len()']))
    U.fn(L, 'lex_word', found(extra=['r.is_some() ==> r.unwrap().token is Word']))
    # --- sub-lexers outside Verus: contract assumed here, bounded Kani harness in the same check
    # --- white-space lexers: `source.iter().take_while(|c| **c == X).count()` is desugared (R7) into the counting loop it
    # denotes; the token covers only the character it is named after (C02) and at least one, at most |source| of them
    for f, ch, kind in (('lex_newlines', "'\\n'", 'Newline'), ('lex_tabs', "'\\t'", 'Space'), ('lex_spaces', "' '", 'Space')):
        U.fn(L, f, found(extra=[f'r.is_some() ==> r.unwrap().token is {kind}',
                                f'r.is_some() ==> forall|k: int| 0 <= k < r.unwrap().next_index ==> source@[k] == {ch}'],
                         take_while_count=dict(invariant=[f'forall|k: int| 0 <= k < __n ==> {{E}}@[k] == {ch}']),
                         proofs=[dict(at='body_start', kind='broadcast', text='broadcast use axiom_char_slice_bytes;')]))
    U.fn(L, 'lex_hex_number', dict(assumed('source', 'callee contract; body verified in unit hex_number (R20)'), proved_in='hex_number'))
    U.fn(L, 'lex_number', assumed('source', 'str::parse::<f64>: out of reach of both verifiers; NOT checked by anything'))
    U.raw('''
#[verifier::external_body] pub fn lex_url(source: &[char]) -> (r: Option<FoundToken>) ensures found_ok(source@, r) { unimplemented!() }
#[verifier::external_body] pub fn lex_email_address(source: &[char]) -> (r: Option<FoundToken>) ensures found_ok(source@, r) { unimplemented!() }
#[verifier::external_body] pub fn lex_hostname_token(source: &[char]) -> (r: Option<FoundToken>) ensures found_ok(source@, r) { unimplemented!() }
''', name='assumed:url-email-hostname')
    # --- the dispatcher: never None on non-empty input (the parse loop's panic!() is unreachable)
    U.fn(L, 'lex_token', dict(result='r', props=['C01', 'C02'], requires=['source@.len() >= 1'],
                              ensures=['r.is_some()', 'found_ok(source@, r)'],
                              unroll_fn_array=dict(array='lexers')))
    # --- the tiling loop
    U.item('harper-core/src/parsers/plain_english.rs', 'struct PlainEnglish', derive=())
    U.raw('pub trait Parser { fn parse(&self, source: &[char]) -> Vec<Token>; }', name='trait:Parser')
    U.impl('harper-core/src/parsers/plain_english.rs', 'impl Parser for PlainEnglish', {'parse': dict(
        result='r', props=['C01', 'C02'],
        ensures=['tiles(r@, source@.len() as int)'],
        loops={1: dict(invariant=['cursor <= source@.len()', 'tiles(tokens@, cursor as int)'], decreases='source@.len() - cursor')})})
    U.raw(common.FOOTER)
    return U
