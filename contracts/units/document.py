"""Unit `document` (C02, C01, C17): the condensing passes of Document::parse preserve the plain-English
tiling and never index out of bounds."""
from vx.extract import Unit
from . import common
from .lexing import VOCAB as LEX_VOCAB, TILES_LEMMAS
from .number import SPEC as NUMBER_SPEC

NAME = 'document'
D = 'harper-core/src/document.rs'

PRELUDE = '''
pub type Lrc<T> = std::rc::Rc<T>;
// ---- trusted: the derived Clone of Token returns an equal value ----
impl Clone for Token {
    #[verifier::external_body]
    fn clone(&self) -> (r: Self) ensures r == *self { unimplemented!() }
}
// ---- derive(Is) expansion (is_macro): TokenKind::is_word / is_period / as_mut_number / as_mut_quote ----
impl TokenKind {
    pub fn is_word(&self) -> (r: bool) ensures r == (self is Word) { matches!(self, TokenKind::Word(..)) }
    pub fn is_period(&self) -> (r: bool) ensures r == (self matches TokenKind::Punctuation(Punctuation::Period)) { matches!(self, TokenKind::Punctuation(Punctuation::Period)) }
    pub fn as_mut_number(&mut self) -> (r: Option<&mut Number>)
        ensures (*old(self)) is Number <==> r.is_some(),
                r matches Some(p) ==> *p == (*old(self))->Number_0 && *final(self) == TokenKind::Number(*final(p)),
                r is None ==> *final(self) == *old(self),
    { match self { TokenKind::Number(v) => Some(v), _ => None } }
    // token_kind.rs: `self.as_mut_punctuation()?.as_mut_quote()`, two derive(Is) accessors chained; written out
    pub fn as_mut_quote(&mut self) -> (r: Option<&mut Quote>)
        ensures is_q(*old(self)) <==> r.is_some(),
                r matches Some(p) ==> *old(self) == TokenKind::Punctuation(Punctuation::Quote(*p)) && *final(self) == TokenKind::Punctuation(Punctuation::Quote(*final(p))),
                r is None ==> *final(self) == *old(self),
    { match self { TokenKind::Punctuation(Punctuation::Quote(q)) => Some(q), _ => None } }
}
pub open spec fn is_q(k: TokenKind) -> bool { k matches TokenKind::Punctuation(Punctuation::Quote(_)) }
pub open spec fn twin_of(k: TokenKind) -> Option<usize> { match k { TokenKind::Punctuation(Punctuation::Quote(q)) => q.twin_loc, _ => None } }
// ---- stub for the paste!-generated `iter_quote_indices` of TokenStringExt (token_string_ext.rs:
// `self.iter().enumerate().filter(|(_, t)| t.kind.is_quote()).map(|(i, _)| i)`) followed by `.collect()`: ASSUMED to
// yield, in increasing order, exactly the positions of the quote tokens ----
pub open spec fn quote_index_list(t: Seq<Token>, q: Seq<usize>) -> bool {
    &&& incr(q)
    &&& forall|k: int| 0 <= k < q.len() ==> (#[trigger] q[k]) < t.len() && is_q(t[q[k] as int].kind)
    &&& forall|j: int| 0 <= j < t.len() && is_q((#[trigger] t[j]).kind) ==> q.contains(j as usize)
}
pub struct QuoteIndexIter { pub idx: Vec<usize> }
impl QuoteIndexIter { pub fn collect(self) -> (r: Vec<usize>) ensures r@ == self.idx@ { self.idx } }
pub trait TokenStringExt { fn iter_quote_indices(&self) -> QuoteIndexIter; }
impl TokenStringExt for Vec<Token> {
    #[verifier::external_body]
    fn iter_quote_indices(&self) -> (r: QuoteIndexIter) ensures quote_index_list(self@, r.idx@) { unimplemented!() }
}
'''


WS = '''
// whitespace counts carried by Space / Newline tokens, and their sum over a token list
pub open spec fn ws_count(t: Token) -> nat {
    match t.kind { TokenKind::Space(n) => n as nat, TokenKind::Newline(n) => n as nat, _ => 0 }
}
pub open spec fn sum_ws(s: Seq<Token>, from: int) -> nat
    decreases s.len() - from
{
    if from < 0 || from >= s.len() { 0 } else { ws_count(s[from]) + sum_ws(s, from + 1) }
}
pub proof fn lemma_sum_ws_mono(s: Seq<Token>, a: int, b: int)
    requires 0 <= a <= b,
    ensures sum_ws(s, a) >= sum_ws(s, b),
    decreases b - a,
{
    if a < b && a < s.len() { lemma_sum_ws_mono(s, a + 1, b); }
    else if a < b { assert(sum_ws(s, b) == 0); }
}
pub open spec fn start_ok(s: Option<usize>, cursor: usize) -> bool { s matches Some(i) ==> i + 2 <= cursor }
// sum over [a, b)
pub open spec fn sum_ws_range(s: Seq<Token>, a: int, b: int) -> int { sum_ws(s, a) - sum_ws(s, b) }
'''

# the loop shape shared by condense_spaces and condense_newlines
def condense_ws():
    always = ['copy@.len() == len0', 'c < len0', 'len0 + 2 <= usize::MAX', 'sum_ws(copy@, 0) <= usize::MAX',
              '*start_count + sum_ws(copy@, cursor + 1) <= sum_ws(copy@, c as int)',
              'incr(remove_these@)', 'forall|k: int| 0 <= k < remove_these@.len() ==> #[trigger] remove_these@[k] < cursor && remove_these@[k] < len0']
    return dict(
        props=['C01', 'C02'],
        requires=['sum_ws(old(self).tokens@, 0) <= usize::MAX', 'old(self).tokens@.len() + 2 <= usize::MAX'],
        proofs=[dict(before='while cursor', kind='ghost', text='let ghost len0 = copy@.len();'),
                dict(before='let start_tok', kind='ghost', text='let ghost c = cursor;'),
                dict(before='let start_tok', text='lemma_sum_ws_mono(copy@, 0, c as int);'),
                dict(before='*start_count += n', text='lemma_sum_ws_mono(copy@, cursor as int + 1, cursor as int + 2); lemma_sum_ws_mono(copy@, 0, c as int);'),
                ],
        loops={
            1: dict(invariant=['copy@.len() == len0', 'self.tokens@.len() == len0', 'len0 + 2 <= usize::MAX', 'sum_ws(copy@, 0) <= usize::MAX',
                               'cursor <= len0 + 2',
                               'forall|i: int| cursor <= i < len0 ==> self.tokens@[i] == copy@[i]',
                               'incr(remove_these@)', 'forall|k: int| 0 <= k < remove_these@.len() ==> #[trigger] remove_these@[k] < cursor && remove_these@[k] < len0'],
                    decreases='len0 + 2 - cursor'),
            2: dict(invariant=always, invariant_except_break=['c <= cursor <= len0'], ensures=['c < cursor <= len0 + 1'], decreases='len0 + 1 - cursor'),
        })


DOT_LEMMAS = r'''
pub proof fn lemma_in_rm_push(rm: Seq<usize>, v: usize)
    ensures forall|i: int| #[trigger] in_rm(rm.push(v), i) <==> (in_rm(rm, i) || i == v as int),
{
    let r2 = rm.push(v);
    assert forall|i: int| #[trigger] in_rm(r2, i) <==> (in_rm(rm, i) || i == v as int) by {
        if in_rm(rm, i) { let k = choose|k: int| 0 <= k < rm.len() && #[trigger] rm[k] as int == i; assert(r2[k] as int == i); }
        if i == v as int { assert(r2[rm.len() as int] as int == i); }
        if in_rm(r2, i) { let k = choose|k: int| 0 <= k < r2.len() && #[trigger] r2[k] as int == i; if k < rm.len() { assert(rm[k] as int == i); } }
    }
}
pub proof fn lemma_in_rm_bound(rm: Seq<usize>, c: int)
    requires forall|k: int| 0 <= k < rm.len() ==> #[trigger] rm[k] + 1 < c,
    ensures forall|i: int| #[trigger] in_rm(rm, i) ==> 0 <= i && i + 1 < c,
{
    assert forall|i: int| #[trigger] in_rm(rm, i) implies 0 <= i && i + 1 < c by {
        let k = choose|k: int| 0 <= k < rm.len() && #[trigger] rm[k] as int == i; assert(rm[k] + 1 < c);
    }
}
// start boundary of token j, or the end of the text
pub open spec fn bnd(orig: Seq<Token>, n: int, j: int) -> int { if j < orig.len() { orig[j].span.start as int } else { n } }

pub proof fn lemma_keepseq_agree<T>(s1: Seq<T>, s2: Seq<T>, r1: Seq<usize>, r2: Seq<usize>, f: int)
    requires f <= s1.len(), f <= s2.len(), forall|i: int| 0 <= i < f ==> #[trigger] s1[i] == s2[i], forall|i: int| 0 <= i < f ==> #[trigger] in_rm(r1, i) == in_rm(r2, i),
    ensures keepseq(s1, r1, f) == keepseq(s2, r2, f),
    decreases f,
{
    if f > 0 { lemma_keepseq_agree(s1, s2, r1, r2, f - 1); }
}
pub proof fn lemma_keepseq_skip<T>(s: Seq<T>, rm: Seq<usize>, a: int, b: int)
    requires 0 <= a <= b, forall|i: int| a <= i < b ==> in_rm(rm, i),
    ensures keepseq(s, rm, b) == keepseq(s, rm, a),
    decreases b - a,
{
    if a < b { lemma_keepseq_skip(s, rm, a, b - 1); }
}
pub proof fn lemma_tiles_push(t: Seq<Token>, x: Token, upto: int)
    requires tiles(t, upto), x.span.start == upto, x.span.start < x.span.end,
    ensures tiles(t.push(x), x.span.end as int),
{
    let u = t.push(x);
    assert forall|i: int| 0 <= i < u.len() implies (#[trigger] u[i]).span.start < u[i].span.end by {
        if i < t.len() { assert(u[i] == t[i]); }
    }
    assert forall|i: int| 0 <= i < u.len() - 1 implies u[i].span.end == #[trigger] u[i + 1].span.start by {
        if i + 1 < t.len() { assert(u[i] == t[i]); assert(u[i + 1] == t[i + 1]); }
        else { assert(u[i] == t[i]); assert(u[i + 1] == x); }
    }
    if t.len() > 0 { assert(u[0] == t[0]); }
}
pub proof fn lemma_tiles_bnd(orig: Seq<Token>, n: int, j: int)
    requires tiles(orig, n), 0 <= j < orig.len(),
    ensures orig[j].span.end == bnd(orig, n, j + 1), orig[j].span.start < orig[j].span.end,
{
    if j + 1 < orig.len() { assert(orig[j].span.end == orig[j + 1].span.start); }
}
// State of the scan at frontier f = cursor - 1: tokens below the frontier are settled.
//   closed (None):  the kept tokens of cur[0..f) tile [0, start of token f)
//   open (Some(s)): the kept tokens of cur[0..s) tile [0, start of s); s is kept and untouched;
//                   everything strictly between s and the frontier is scheduled for removal
pub open spec fn dot_inv(orig: Seq<Token>, n: int, cur: Seq<Token>, rm: Seq<usize>, st: Option<usize>, cursor: int) -> bool {
    match st {
        None => tiles(keepseq(cur, rm, cursor - 1), bnd(orig, n, cursor - 1)),
        Some(s) => {
            &&& s + 3 <= cursor
            &&& !in_rm(rm, s as int)
            &&& cur[s as int] == orig[s as int]
            &&& forall|j: int| s < j < cursor - 1 ==> in_rm(rm, j)
            &&& tiles(keepseq(cur, rm, s as int), bnd(orig, n, s as int))
            // the period that closed the latest pair is the last index scheduled for removal
            &&& rm.len() > 0 && rm[rm.len() - 1] as int == cursor - 2
        }
    }
}
pub open spec fn dot_common(orig: Seq<Token>, n: int, cur: Seq<Token>, rm: Seq<usize>, cursor: int) -> bool {
    &&& cur.len() == orig.len() && tiles(orig, n)
    &&& 1 <= cursor <= orig.len() + 1
    &&& forall|i: int| cursor - 1 <= i < orig.len() ==> cur[i] == orig[i]
    &&& forall|i: int| 0 <= i < orig.len() && in_rm(rm, i) ==> cur[i] == orig[i]
    &&& forall|k: int| 0 <= k < rm.len() ==> #[trigger] rm[k] + 1 < cursor
}

// a chunk (cursor-1, cursor) was found: bookkeeping only
pub proof fn lemma_dot_chunk(orig: Seq<Token>, n: int, cur: Seq<Token>, rm0: Seq<usize>, st0: Option<usize>, c: int, rm1: Seq<usize>)
    requires dot_common(orig, n, cur, rm0, c), c < orig.len(), dot_inv(orig, n, cur, rm0, st0, c),
        0 < c, c <= usize::MAX, st0 is None ==> rm1 == rm0.push(c as usize),
        st0 is Some ==> rm1 == rm0.push((c - 1) as usize).push(c as usize),
    ensures dot_inv(orig, n, cur, rm1, (if st0 is None { Some((c - 1) as usize) } else { st0 }), c + 2),
        forall|i: int| 0 <= i < orig.len() && in_rm(rm1, i) ==> cur[i] == orig[i],
{
    lemma_in_rm_push(rm0, c as usize);
    lemma_in_rm_push(rm0, (c - 1) as usize);
    lemma_in_rm_push(rm0.push((c - 1) as usize), c as usize);
    lemma_in_rm_bound(rm0, c);
    match st0 {
        None => {
            lemma_keepseq_agree(cur, cur, rm0, rm1, c - 1);
            assert(!in_rm(rm1, c - 1));
            assert(in_rm(rm1, c));
            assert(rm1[rm1.len() - 1] as int == c);
        }
        Some(s) => {
            lemma_keepseq_agree(cur, cur, rm0, rm1, s as int);
            assert(in_rm(rm1, c - 1)); assert(in_rm(rm1, c));
            assert(!in_rm(rm1, s as int));
            assert(rm1[rm1.len() - 1] as int == c);
        }
    }
}

// a non-chunk pair: an open initialism of two or more letter-period pairs is closed by extending its first token up to
// token cursor-2; a single pair ("So do I.") is not an initialism: its period is taken off the removal list again
pub proof fn lemma_dot_close(orig: Seq<Token>, n: int, cur0: Seq<Token>, rm0: Seq<usize>, st0: Option<usize>, c: int, cur1: Seq<Token>, rm1: Seq<usize>)
    requires dot_common(orig, n, cur0, rm0, c), dot_inv(orig, n, cur0, rm0, st0, c), incr(rm0),
        forall|i: int| 0 <= i < orig.len() ==> (#[trigger] cur0[i]).span.start == orig[i].span.start,
        st0 is None ==> cur1 == cur0 && rm1 == rm0,
        st0 matches Some(s) ==> (c - 2 == s + 1 ==> cur1 == cur0 && rm1 == rm0.drop_last()),
        st0 matches Some(s) ==> (c - 2 != s + 1 ==> rm1 == rm0 && cur1.len() == cur0.len() && (forall|i: int| 0 <= i < cur0.len() && i != s ==> cur1[i] == cur0[i])
            && cur1[s as int].span.start == cur0[s as int].span.start && cur1[s as int].span.end == cur0[c - 2].span.end && cur1[s as int].kind == cur0[s as int].kind),
    ensures dot_inv(orig, n, cur1, rm1, None, c), dot_common(orig, n, cur1, rm1, c),
        forall|i: int| 0 <= i < orig.len() ==> (#[trigger] cur1[i]).span.start == orig[i].span.start,
{
    match st0 {
        None => {}
        Some(s) => {
            let si = s as int;
            lemma_in_rm_bound(rm0, c);
            if c - 2 == si + 1 {
                let last = rm0.len() - 1;
                assert(rm0[last] as int == si + 1);
                // membership after dropping the last (largest) index
                assert forall|i: int| #[trigger] in_rm(rm1, i) <==> (in_rm(rm0, i) && i != si + 1) by {
                    if in_rm(rm1, i) { let k = choose|k: int| 0 <= k < rm1.len() && #[trigger] rm1[k] as int == i; assert(rm0[k] as int == i); assert(rm0[k] < rm0[last]); }
                    if in_rm(rm0, i) && i != si + 1 { let k = choose|k: int| 0 <= k < rm0.len() && #[trigger] rm0[k] as int == i; assert(k < last); assert(rm1[k] as int == i); }
                }
                assert(in_rm(rm0, si + 1)) by { assert(rm0[last] as int == si + 1); }
                assert(cur0[si + 1] == orig[si + 1]);
                assert(!in_rm(rm1, si) && !in_rm(rm1, si + 1));
                lemma_keepseq_agree(cur0, cur0, rm0, rm1, si);
                lemma_tiles_bnd(orig, n, si);
                lemma_tiles_bnd(orig, n, si + 1);
                assert(keepseq(cur0, rm1, si + 1) == keepseq(cur0, rm1, si).push(cur0[si]));
                lemma_tiles_push(keepseq(cur0, rm1, si), cur0[si], bnd(orig, n, si));
                assert(keepseq(cur0, rm1, si + 2) == keepseq(cur0, rm1, si + 1).push(cur0[si + 1]));
                lemma_tiles_push(keepseq(cur0, rm1, si + 1), cur0[si + 1], bnd(orig, n, si + 1));
                assert forall|k: int| 0 <= k < rm1.len() implies #[trigger] rm1[k] + 1 < c by { assert(rm0[k] + 1 < c); }
            } else {
                assert(in_rm(rm0, c - 2));           // c-2 lies strictly between s and the frontier
                assert(cur0[c - 2] == orig[c - 2]);
                lemma_tiles_bnd(orig, n, c - 2);
                lemma_tiles_bnd(orig, n, si);
                lemma_tiles_mono(orig, n, si, c - 2);
                // kept prefix below s is unchanged
                lemma_keepseq_agree(cur0, cur1, rm0, rm0, si);
                // s is kept, (s, c-1) is removed
                lemma_keepseq_skip(cur1, rm0, si + 1, c - 1);
                assert(keepseq(cur1, rm0, si + 1) == keepseq(cur1, rm0, si).push(cur1[si]));
                lemma_tiles_push(keepseq(cur1, rm0, si), cur1[si], bnd(orig, n, si));
                assert(bnd(orig, n, c - 1) == orig[c - 2].span.end);
            }
        }
    }
}

// the frontier token cursor-1 is kept as it is
pub proof fn lemma_dot_step(orig: Seq<Token>, n: int, cur: Seq<Token>, rm: Seq<usize>, c: int)
    requires dot_common(orig, n, cur, rm, c), c <= orig.len(), dot_inv(orig, n, cur, rm, None, c),
    ensures dot_inv(orig, n, cur, rm, None, c + 1),
{
    lemma_in_rm_bound(rm, c);
    assert(!in_rm(rm, c - 1));
    assert(cur[c - 1] == orig[c - 1]);
    lemma_tiles_bnd(orig, n, c - 1);
    assert(keepseq(cur, rm, c) == keepseq(cur, rm, c - 1).push(cur[c - 1]));
    lemma_tiles_push(keepseq(cur, rm, c - 1), cur[c - 1], bnd(orig, n, c - 1));
}

'''

SPACES_LEMMAS = r'''
pub open spec fn imin(a: int, b: int) -> int { if a <= b { a } else { b } }

// extend the settled prefix by one kept, span-unchanged token
pub proof fn lemma_keep_one(orig: Seq<Token>, n: int, cur: Seq<Token>, rm: Seq<usize>, j: int)
    requires tiles(orig, n), cur.len() == orig.len(), 0 <= j < orig.len(), !in_rm(rm, j), cur[j].span == orig[j].span,
        tiles(keepseq(cur, rm, j), bnd(orig, n, j)),
    ensures tiles(keepseq(cur, rm, j + 1), bnd(orig, n, j + 1)),
{
    lemma_tiles_bnd(orig, n, j);
    assert(keepseq(cur, rm, j + 1) == keepseq(cur, rm, j).push(cur[j]));
    lemma_tiles_push(keepseq(cur, rm, j), cur[j], bnd(orig, n, j));
}

// one iteration of the outer loop of condense_spaces / what it does to the settled prefix
pub proof fn lemma_spaces_iter(orig: Seq<Token>, n: int, cur0: Seq<Token>, rm0: Seq<usize>, c: int, cur1: Seq<Token>, rm1: Seq<usize>, cursor1: int, merged: bool, is_space: bool)
    requires tiles(orig, n), cur0.len() == orig.len(), cur1.len() == orig.len(), 0 <= c < orig.len(), orig.len() + 4 <= usize::MAX,
        forall|i: int| c <= i < orig.len() ==> cur0[i] == orig[i],
        forall|i: int| 0 <= i < orig.len() && i != c ==> cur1[i] == cur0[i],
        forall|k: int| 0 <= k < rm0.len() ==> #[trigger] rm0[k] < c,
        tiles(keepseq(cur0, rm0, c), bnd(orig, n, c)),
        cur1[c].span.start == orig[c].span.start,
        !is_space ==> !merged && cur1[c] == cur0[c] && cursor1 == c + 1,
        is_space && !merged ==> rm1 == rm0 && cur1[c].span.end == orig[c].span.end && cursor1 == c + 2,
        !merged ==> rm1 == rm0,
        merged ==> c + 1 < orig.len() && rm1 == rm0.push((c + 1) as usize) && cur1[c].span.end == orig[c + 1].span.end && cursor1 == c + 4,
    ensures tiles(keepseq(cur1, rm1, imin(cursor1, orig.len() as int)), bnd(orig, n, imin(cursor1, orig.len() as int))),
{
    let len = orig.len() as int;
    lemma_in_rm_push(rm0, (c + 1) as usize);
    assert forall|i: int| #[trigger] in_rm(rm0, i) implies i < c by {
        let k = choose|k: int| 0 <= k < rm0.len() && #[trigger] rm0[k] as int == i; assert(rm0[k] < c);
    }
    lemma_keepseq_agree(cur0, cur1, rm0, rm1, c);
    assert(!in_rm(rm1, c));
    lemma_tiles_bnd(orig, n, c);
    if !merged {
        assert(cur1[c].span == orig[c].span);
        lemma_keep_one(orig, n, cur1, rm1, c);
        if is_space && c + 1 < len {
            assert(cur1[c + 1] == orig[c + 1]);
            lemma_keep_one(orig, n, cur1, rm1, c + 1);
        }
    } else {
        lemma_tiles_bnd(orig, n, c + 1);
        lemma_tiles_mono(orig, n, c, c + 1);
        // token c now spans [start of c, end of c+1); c+1 is scheduled for removal
        assert(keepseq(cur1, rm1, c + 1) == keepseq(cur1, rm1, c).push(cur1[c]));
        lemma_tiles_push(keepseq(cur1, rm1, c), cur1[c], bnd(orig, n, c));
        assert(in_rm(rm1, c + 1));
        assert(keepseq(cur1, rm1, c + 2) == keepseq(cur1, rm1, c + 1));
        assert(bnd(orig, n, c + 2) == orig[c + 1].span.end);
        if c + 2 < len {
            assert(!in_rm(rm1, c + 2));
            assert(cur1[c + 2] == orig[c + 2]);
            lemma_keep_one(orig, n, cur1, rm1, c + 2);
            if c + 3 < len {
                assert(!in_rm(rm1, c + 3));
                assert(cur1[c + 3] == orig[c + 3]);
                lemma_keep_one(orig, n, cur1, rm1, c + 3);
            }
        }
    }
}

'''

SPACES = dict(
    props=['C01', 'C02'],
    requires=['sum_ws(old(self).tokens@, 0) <= usize::MAX', 'old(self).tokens@.len() + 4 <= usize::MAX',
              'tiles(old(self).tokens@, old(self).source@.len() as int)'],
    ensures=['tiles(final(self).tokens@, old(self).source@.len() as int)', 'final(self).source@ == old(self).source@'],
    proofs=[dict(before='while cursor', kind='ghost', text='let ghost len0 = copy@.len();'),
            dict(before='while cursor', kind='ghost', text='let ghost n = self.source@.len() as int;'),
            dict(before='while cursor', text='assert(copy@ =~= self.tokens@); assert(keepseq(self.tokens@, remove_these@, 0) =~= Seq::<Token>::empty()); if len0 > 0 { assert(copy@[0].span.start == 0); }'),
            dict(before='let start_tok', kind='ghost', text='let ghost c = cursor;'),
            dict(before='let start_tok', kind='ghost', text='let ghost cur0 = self.tokens@;'),
            dict(before='let start_tok', kind='ghost', text='let ghost rm0 = remove_these@;'),
            dict(before='let start_tok', kind='ghost', text='let ghost mut merged = false;'),
            dict(before='let start_tok', kind='ghost', text='let ghost mut is_space = false;'),
            dict(before='let start_tok', text='lemma_sum_ws_mono(copy@, 0, c as int);'),
            dict(before='loop', text='is_space = true;'),
            dict(after='let child_tok', text='if merged { lemma_tiles_bnd(copy@, n, c + 1); lemma_tiles_bnd(copy@, n, c + 2); } else { lemma_tiles_bnd(copy@, n, c as int); }'),
            dict(before='*start_count += n', text='lemma_sum_ws_mono(copy@, cursor as int + 1, cursor as int + 2); lemma_sum_ws_mono(copy@, 0, c as int);'),
            dict(after='remove_these.push_back', text='merged = true;'),
            dict(before='self.tokens.remove_indices', text='assert(imin(cursor as int, len0 as int) == len0);'),
            ],
    loops={
        1: dict(invariant=['copy@.len() == len0', 'self.tokens@.len() == len0', 'len0 + 4 <= usize::MAX', 'sum_ws(copy@, 0) <= usize::MAX',
                           'cursor <= len0 + 4',
                           'forall|i: int| cursor <= i < len0 ==> self.tokens@[i] == copy@[i]',
                           'incr(remove_these@)', 'forall|k: int| 0 <= k < remove_these@.len() ==> #[trigger] remove_these@[k] < cursor && remove_these@[k] < len0',
                           'tiles(copy@, n)', 'n == self.source@.len()', 'self.source@ == old(self).source@',
                           'tiles(keepseq(self.tokens@, remove_these@, imin(cursor as int, len0 as int)), bnd(copy@, n, imin(cursor as int, len0 as int)))'],
                decreases='len0 + 4 - cursor',
                end_proof='lemma_spaces_iter(copy@, n, cur0, rm0, c as int, self.tokens@, remove_these@, cursor as int, merged, is_space);'),
        2: dict(invariant=['copy@.len() == len0', 'c < len0', 'len0 + 4 <= usize::MAX', 'sum_ws(copy@, 0) <= usize::MAX',
                           '*start_count + sum_ws(copy@, cursor + 1) <= sum_ws(copy@, c as int)',
                           'incr(remove_these@)', 'forall|k: int| 0 <= k < remove_these@.len() ==> #[trigger] remove_these@[k] < cursor && remove_these@[k] < len0',
                           'tiles(copy@, n)', 'start_tok.span.start == copy@[c as int].span.start',
                           '!merged ==> remove_these@ == rm0 && start_tok.span.end == copy@[c as int].span.end',
                           'merged ==> c + 1 < len0 && remove_these@ == rm0.push((c + 1) as usize) && start_tok.span.end == copy@[c + 1].span.end'],
                invariant_except_break=['c <= cursor <= len0', '!merged ==> cursor == c', 'merged ==> cursor == c + 2'],
                ensures=['c < cursor <= len0 + 3', '!merged ==> cursor == c + 1', 'merged ==> cursor == c + 3'],
                decreases='len0 + 1 - cursor'),
    })


NUMSUF_LEMMAS = r'''
pub open spec fn starts_ok(rs: &Vec<usize>, toks: Seq<Token>, upto: usize) -> bool {
    &&& forall|k: int| 0 <= k < rs@.len() ==> #[trigger] rs@[k] < upto && rs@[k] + 1 < toks.len()
            && toks[rs@[k] as int].kind is Number && toks[rs@[k] + 1].kind is Word
    &&& forall|a: int, b: int| 0 <= a < b < rs@.len() ==> #[trigger] rs@[a] + 2 <= #[trigger] rs@[b]
}
// ---- condense_indices: each listed index absorbs the stretch_len-1 tokens after it ----
pub open spec fn in_stretch(ind: Seq<usize>, st: int, i: int) -> bool { exists|k: int| 0 <= k < ind.len() && #[trigger] ind[k] < i && i < ind[k] + st }
pub open spec fn stretched(old: Seq<Token>, ind: Seq<usize>, st: int) -> Seq<Token> {
    Seq::new(old.len(), |i: int| if in_rm(ind, i) && i + st - 1 < old.len() {
        Token { span: Span { start: old[i].span.start, end: old[i + st - 1].span.end }, kind: old[i].kind }
    } else { old[i] })
}
pub open spec fn keepf<T>(s: Seq<T>, p: spec_fn(int) -> bool, f: int) -> Seq<T>
    decreases f
{
    if f <= 0 { Seq::empty() } else {
        let q = keepf(s, p, f - 1);
        if p(f - 1) { q } else { q.push(s[f - 1]) }
    }
}
pub open spec fn pairs_ok(ind: Seq<usize>, len: int) -> bool {
    &&& forall|k: int| 0 <= k < ind.len() ==> #[trigger] ind[k] + 2 <= len
    &&& forall|a: int, b: int| 0 <= a < b < ind.len() ==> #[trigger] ind[a] + 2 <= #[trigger] ind[b]
}
pub proof fn lemma_pairs_sorted(ind: Seq<usize>, len: int, a: int, b: int)
    requires pairs_ok(ind, len), 0 <= a < b < ind.len(),
    ensures ind[a] + 2 <= ind[b],
{ }
// merging <number><suffix-word> pairs keeps the tokens tiling the text
pub proof fn lemma_pairs_tile(orig: Seq<Token>, cur: Seq<Token>, ind: Seq<usize>, n: int, f: int)
    requires tiles(orig, n), cur.len() == orig.len(), forall|i: int| 0 <= i < orig.len() ==> (#[trigger] cur[i]).span == orig[i].span,
        pairs_ok(ind, orig.len() as int), 0 <= f <= orig.len(), !in_stretch(ind, 2, f),
    ensures tiles(keepf(stretched(cur, ind, 2), |i: int| in_stretch(ind, 2, i), f), bnd(orig, n, f)),
    decreases f,
{
    let p = |i: int| in_stretch(ind, 2, i);
    let s2 = stretched(cur, ind, 2);
    if f == 0 {
        assert(keepf(s2, p, 0) =~= Seq::<Token>::empty());
        if orig.len() > 0 { assert(orig[0].span.start == 0); }
    } else if in_stretch(ind, 2, f - 1) {
        // f-1 is the partner of the start f-2
        let k = choose|k: int| 0 <= k < ind.len() && #[trigger] ind[k] < f - 1 && f - 1 < ind[k] + 2;
        assert(ind[k] == f - 2);
        assert(in_rm(ind, f - 2));
        // f-2 is itself not a partner
        assert(!in_stretch(ind, 2, f - 2)) by {
            if in_stretch(ind, 2, f - 2) {
                let j = choose|j: int| 0 <= j < ind.len() && #[trigger] ind[j] < f - 2 && f - 2 < ind[j] + 2;
                assert(ind[j] == f - 3);
                if j < k { lemma_pairs_sorted(ind, orig.len() as int, j, k); } else if k < j { lemma_pairs_sorted(ind, orig.len() as int, k, j); }
            }
        }
        lemma_pairs_tile(orig, cur, ind, n, f - 2);
        assert(p(f - 1)); assert(!p(f - 2));
        assert(keepf(s2, p, f) == keepf(s2, p, f - 1));
        assert(keepf(s2, p, f - 1) == keepf(s2, p, f - 2).push(s2[f - 2]));
        lemma_tiles_bnd(orig, n, f - 2); lemma_tiles_bnd(orig, n, f - 1);
        assert(s2[f - 2].span.start == orig[f - 2].span.start && s2[f - 2].span.end == orig[f - 1].span.end);
        lemma_tiles_push(keepf(s2, p, f - 2), s2[f - 2], bnd(orig, n, f - 2));
    } else {
        // f-1 is kept as it is: it cannot be a start, because then f would be its partner
        assert(!in_rm(ind, f - 1)) by {
            if in_rm(ind, f - 1) {
                let k = choose|k: int| 0 <= k < ind.len() && #[trigger] ind[k] as int == f - 1;
                assert(ind[k] + 2 <= orig.len());
                assert(ind[k] < f && f < ind[k] + 2);
                assert(in_stretch(ind, 2, f));
            }
        }
        lemma_pairs_tile(orig, cur, ind, n, f - 1);
        assert(!p(f - 1));
        assert(keepf(s2, p, f) == keepf(s2, p, f - 1).push(s2[f - 1]));
        assert(s2[f - 1] == cur[f - 1]);
        lemma_tiles_bnd(orig, n, f - 1);
        lemma_tiles_push(keepf(s2, p, f - 1), s2[f - 1], bnd(orig, n, f - 1));
    }
}

'''

CI_LEMMAS = r'''
// ---- trusted std: Option<&T>::copied copies the referent ----
pub assume_specification<'a, T: Copy> [std::option::Option::<&T>::copied] (o: std::option::Option<&'a T>) -> (r: std::option::Option<T>)
    ensures r == (match o { Some(x) => Some(*x), None => None });

pub open spec fn ci_pre(ind: Seq<usize>, st: int, len: int) -> bool {
    &&& st >= 1
    &&& forall|k: int| 0 <= k < ind.len() ==> #[trigger] ind[k] + st <= len
    &&& forall|a: int, b: int| 0 <= a < b < ind.len() ==> #[trigger] ind[a] + st <= #[trigger] ind[b]
}
pub open spec fn pfun(ind: Seq<usize>, st: int) -> spec_fn(int) -> bool { |i: int| in_stretch(ind, st, i) }
pub proof fn lemma_keepf_ext<T>(s: Seq<T>, p: spec_fn(int) -> bool, q: spec_fn(int) -> bool, f: int)
    requires forall|i: int| 0 <= i < f ==> #[trigger] p(i) == q(i),
    ensures keepf(s, p, f) == keepf(s, q, f),
    decreases f
{
    if f > 0 { lemma_keepf_ext(s, p, q, f - 1); assert(p(f - 1) == q(f - 1)); }
}
pub proof fn lemma_keepf_append<T>(s: Seq<T>, p: spec_fn(int) -> bool, a: int, b: int)
    requires 0 <= a <= b <= s.len(), forall|i: int| a <= i < b ==> !(#[trigger] p(i)),
    ensures keepf(s, p, b) == keepf(s, p, a) + s.subrange(a, b),
    decreases b - a
{
    if a < b {
        lemma_keepf_append(s, p, a, b - 1);
        assert(!p(b - 1));
        assert(keepf(s, p, a) + s.subrange(a, b) =~= (keepf(s, p, a) + s.subrange(a, b - 1)).push(s[b - 1]));
    } else { assert(keepf(s, p, a) + s.subrange(a, b) =~= keepf(s, p, a)); }
}
pub proof fn lemma_keepf_skip<T>(s: Seq<T>, p: spec_fn(int) -> bool, a: int, b: int)
    requires 0 <= a <= b, forall|i: int| a <= i < b ==> #[trigger] p(i),
    ensures keepf(s, p, b) == keepf(s, p, a),
    decreases b - a
{
    if a < b { lemma_keepf_skip(s, p, a, b - 1); assert(p(b - 1)); }
}
pub proof fn lemma_ind_mono(ind: Seq<usize>, st: int, len: int, a: int, b: int)
    requires ci_pre(ind, st, len), 0 <= a <= b < ind.len(),
    ensures ind[a] <= ind[b], a < b ==> ind[a] + st <= ind[b],
{ }
// positions outside every stretch: up to the first index; between a stretch and the next index; behind the last stretch
pub proof fn lemma_not_in_stretch(ind: Seq<usize>, st: int, len: int, k: int, i: int)
    requires ci_pre(ind, st, len),
        (k == -1 && (ind.len() == 0 || i <= ind[0])) || (0 <= k < ind.len() && ind[k] + st <= i && (k + 1 < ind.len() ==> i <= ind[k + 1])) || (0 <= k < ind.len() && i == ind[k]),
    ensures !in_stretch(ind, st, i),
{
    if in_stretch(ind, st, i) {
        let j = choose|j: int| 0 <= j < ind.len() && #[trigger] ind[j] < i && i < ind[j] + st;
        if k == -1 { lemma_ind_mono(ind, st, len, 0, j); }
        else if j <= k { lemma_ind_mono(ind, st, len, j, k); }
        else { lemma_ind_mono(ind, st, len, k + 1, j); }
    }
}
pub proof fn lemma_in_rm_unique(ind: Seq<usize>, st: int, len: int, k: int)
    requires ci_pre(ind, st, len), 0 <= k < ind.len(),
    ensures in_rm(ind, ind[k] as int), forall|j: int| 0 <= j < ind.len() && j != k ==> ind[j] != ind[k],
            st > 1 ==> !in_rm(ind, ind[k] + st - 1),
{
    assert forall|j: int| 0 <= j < ind.len() && j != k implies ind[j] != ind[k] by {
        if j < k { lemma_ind_mono(ind, st, len, j, k); } else { lemma_ind_mono(ind, st, len, k, j); }
    }
    if st > 1 && in_rm(ind, ind[k] + st - 1) {
        let j = choose|j: int| 0 <= j < ind.len() && #[trigger] ind[j] as int == ind[k] + st - 1;
        if j < k { lemma_ind_mono(ind, st, len, j, k); } else if j > k { lemma_ind_mono(ind, st, len, k, j); }
    }
}
// state after the first loop has handled the indices ind[0..m)
pub open spec fn partly(t0: Seq<Token>, ind: Seq<usize>, st: int, m: int, cur: Seq<Token>) -> bool {
    &&& cur.len() == t0.len()
    &&& forall|i: int| 0 <= i < t0.len() ==> #[trigger] cur[i] == (if in_rm(ind.subrange(0, m), i) { Token { span: Span { start: t0[i].span.start, end: t0[i + st - 1].span.end }, kind: t0[i].kind } } else { t0[i] })
}


'''

CONDENSE_INDICES = dict(
    props=['C01', 'C02', 'C17'],
    requires=['stretch_len >= 1',
              'forall|k: int| 0 <= k < indices@.len() ==> #[trigger] indices@[k] + stretch_len <= old(self).tokens@.len()',
              'forall|a: int, b: int| 0 <= a < b < indices@.len() ==> #[trigger] indices@[a] + stretch_len <= #[trigger] indices@[b]'],
    ensures=['final(self).source@ == old(self).source@',
             'final(self).tokens@ == keepf(stretched(old(self).tokens@, indices@, stretch_len as int), |i: int| in_stretch(indices@, stretch_len as int, i), old(self).tokens@.len() as int)'],
    closures=[dict(params='|v|', typed_params='|v: &usize|', result='k: usize', requires='*v + stretch_len <= usize::MAX', ensures='k == *v + stretch_len')],
    loops={1: dict(iter_name='it', invariant=['partly(t0, ind, st, it.index@ as int, self.tokens@)', 'ci_pre(ind, st, n)', 'ind == indices@', 'st == stretch_len', 'n == t0.len()',
                                              'self.source@ == src0']),
           2: dict(desugar='R17', invariant=['ind == indices@', 'ci_pre(ind, st, n)', 'st == stretch_len', 'n == strd.len()', 'old@ == strd', 'p == pfun(ind, st)',
                                             'self.source@ == src0',
                                             'ind.len() == 0 ==> self.tokens@.len() == 0',
                                             '__p < ind.len() ==> self.tokens@ == keepf(strd, p, ind[__p as int] as int)',
                                             '0 < __p == ind.len() ==> self.tokens@ == keepf(strd, p, ind[ind.len() - 1] + st)'])},
    proofs=[dict(at='body_start', kind='ghost', text='let ghost t0 = self.tokens@;'),
            dict(at='body_start', kind='ghost', text='let ghost src0 = self.source@;'),
            dict(at='body_start', kind='ghost', text='let ghost ind = indices@;'),
            dict(at='body_start', kind='ghost', text='let ghost st = stretch_len as int;'),
            dict(at='body_start', kind='ghost', text='let ghost n = t0.len() as int;'),
            dict(at='body_start', text='assert(ind.subrange(0, 0) =~= Seq::<usize>::empty()); assert(ci_pre(ind, st, n));'),
            dict(before='let end_tok', kind='ghost', text='let ghost m = it.index@ as int;'),
            dict(before='let end_tok', kind='ghost', text='let ghost cur0 = self.tokens@;'),
            dict(before='let end_tok', text='''
            lemma_in_rm_unique(ind, st, n, m);
            assert(!in_rm(ind.subrange(0, m), ind[m] + st - 1)) by {
                if in_rm(ind.subrange(0, m), ind[m] + st - 1) {
                    let j = choose|j: int| 0 <= j < m && #[trigger] ind.subrange(0, m)[j] as int == ind[m] + st - 1;
                    assert(ind.subrange(0, m)[j] == ind[j]);
                    lemma_ind_mono(ind, st, n, j, m);
                }
            }
            assert(*idx == ind[m]); assert(ind[m] + st <= n); assert(self.tokens@.len() <= usize::MAX) by { broadcast use vstd::std_specs::vec::axiom_spec_len; let _l = self.tokens.len(); }'''),
            dict(after='start_tok.span.end', text='''
            assert(ind.subrange(0, m + 1) =~= ind.subrange(0, m).push(ind[m]));
            assert forall|i: int| 0 <= i < t0.len() implies #[trigger] self.tokens@[i] == (if in_rm(ind.subrange(0, m + 1), i) { Token { span: Span { start: t0[i].span.start, end: t0[i + st - 1].span.end }, kind: t0[i].kind } } else { t0[i] }) by {
                let s0 = ind.subrange(0, m); let s1 = ind.subrange(0, m + 1);
                if i == ind[m] {
                    assert(s1[m] as int == i);
                    assert(!in_rm(s0, i)) by { if in_rm(s0, i) { let j = choose|j: int| 0 <= j < m && #[trigger] s0[j] as int == i; assert(s0[j] == ind[j]); } }
                } else {
                    assert(self.tokens@[i] == cur0[i]);
                    if in_rm(s0, i) { let j = choose|j: int| 0 <= j < m && #[trigger] s0[j] as int == i; assert(s1[j] as int == i); }
                    if in_rm(s1, i) { let j = choose|j: int| 0 <= j < m + 1 && #[trigger] s1[j] as int == i; assert(j < m); assert(s0[j] as int == i); }
                }
            }'''),
            dict(before='let old', kind='ghost', text='let ghost strd = stretched(t0, ind, st);'),
            dict(before='let old', text='''
        assert(ind.subrange(0, ind.len() as int) =~= ind);
        assert(self.tokens@ =~= strd) by {
            assert forall|i: int| 0 <= i < n implies self.tokens@[i] == strd[i] by {
                if in_rm(ind, i) { let j = choose|j: int| 0 <= j < ind.len() && #[trigger] ind[j] as int == i; assert(ind[j] + st <= n); }
            }
        }'''),
            dict(after='let old', text='assert(old@ =~= strd);'),
            dict(before='self.tokens.extend_from_slice', nth=1, kind='ghost', text='let ghost p = pfun(ind, st);'),
            dict(before='self.tokens.extend_from_slice', nth=1, text='''
        if ind.len() > 0 {
            assert forall|i: int| 0 <= i < ind[0] implies !(#[trigger] p(i)) by { lemma_not_in_stretch(ind, st, n, -1, i); }
            lemma_keepf_append(strd, p, 0, ind[0] as int);
        }
        assert(keepf(strd, p, 0) =~= Seq::<Token>::empty());'''),
            dict(after='self.tokens.extend_from_slice', nth=1, text='if ind.len() > 0 { assert(self.tokens@ =~= keepf(strd, p, ind[0] as int)); } else { assert(self.tokens@ =~= Seq::<Token>::empty()); }'),
            dict(before='self.tokens.push', kind='ghost', text='let ghost k = __p - 1;'),
            dict(before='self.tokens.push', text='lemma_not_in_stretch(ind, st, n, k, ind[k] as int);'),
            dict(after='self.tokens.push', text='''
            assert(!p(ind[k] as int));
            assert(self.tokens@ =~= keepf(strd, p, ind[k] + 1));
            assert forall|i: int| ind[k] + 1 <= i < ind[k] + st implies #[trigger] p(i) by { assert(ind[k] < i && i < ind[k] + st); }
            lemma_keepf_skip(strd, p, ind[k] + 1, ind[k] + st);'''),
            dict(before='self.tokens.extend_from_slice', nth=2, text='''
                lemma_ind_mono(ind, st, n, k, k + 1);
                assert forall|i: int| ind[k] + st <= i < ind[k + 1] implies !(#[trigger] p(i)) by { lemma_not_in_stretch(ind, st, n, k, i); }
                lemma_keepf_append(strd, p, ind[k] + st, ind[k + 1] as int);'''),
            dict(before='self.tokens.extend_from_slice', nth=3, text='''
        if ind.len() > 0 {
            let l = ind.len() - 1;
            assert forall|i: int| ind[l] + st <= i < n implies !(#[trigger] p(i)) by { lemma_not_in_stretch(ind, st, n, l, i); }
            lemma_keepf_append(strd, p, ind[l] + st, n);
        } else {
            assert forall|i: int| 0 <= i < n implies !(#[trigger] p(i)) by { lemma_not_in_stretch(ind, st, n, -1, i); }
            lemma_keepf_append(strd, p, 0, n);
        }'''),
            dict(before='self.tokens.extend_from_slice', nth=3, kind='ghost', text='let ghost tk1 = self.tokens@;'),
            dict(at='body_end', text='''
        if ind.len() > 0 {
            let l = ind.len() - 1;
            assert(tk1 == keepf(strd, p, ind[l] + st));
            assert(self.tokens@ =~= tk1 + strd.subrange(ind[l] + st, n));
        } else {
            assert(tk1.len() == 0);
            assert(self.tokens@ =~= tk1 + strd.subrange(0, n));
            assert(keepf(strd, p, 0) =~= Seq::<Token>::empty());
        }
        assert(self.tokens@ =~= keepf(strd, p, n));
        lemma_keepf_ext(strd, p, |i: int| in_stretch(indices@, stretch_len as int, i), n);'''),
            ])

NUMSUF = dict(
    props=['C01', 'C02', 'C17'],
    requires=['tiles(old(self).tokens@, old(self).source@.len() as int)', 'old(self).tokens@.len() + 2 <= usize::MAX'],
    ensures=['tiles(final(self).tokens@, old(self).source@.len() as int)', 'final(self).source@ == old(self).source@'],
    proofs=[dict(before='for idx', kind='ghost', text='let ghost orig = self.tokens@;'),
            dict(before='for idx', kind='ghost', text='let ghost n = self.source@.len() as int;'),
            dict(before='for idx', text='lemma_tiles_in_bounds_ordered(orig, n);'),
            dict(before='if let Some(found_suffix)', text='assert(span_in(orig[idx + 1].span, n));'),
            dict(before='self.tokens[idx]', kind='ghost', text='let ghost t0 = self.tokens@;'),
            dict(before='self.tokens[idx]', kind='ghost', text='let ghost rs0 = replace_starts@;'),
            dict(after='replace_starts.push', text='''
                        assert(self.tokens@[idx as int].kind is Number);
                        assert forall|i: int| 0 <= i < orig.len() && i != idx implies self.tokens@[i] == t0[i] by { }
                        assert forall|a: int, b: int| 0 <= a < b < replace_starts@.len() implies #[trigger] replace_starts@[a] + 2 <= #[trigger] replace_starts@[b] by {
                            if b == rs0.len() {
                                assert(t0[rs0[a] + 1].kind is Word);
                                assert(t0[idx as int].kind is Number);
                                assert(rs0[a] < idx);
                            } else { assert(rs0[a] + 2 <= rs0[b]); }
                        }
                        assert forall|k: int| 0 <= k < replace_starts@.len() implies #[trigger] replace_starts@[k] < __k && replace_starts@[k] + 1 < orig.len()
                            && self.tokens@[replace_starts@[k] as int].kind is Number && self.tokens@[replace_starts@[k] + 1].kind is Word by {
                            if k < rs0.len() {
                                assert(t0[rs0[k] + 1].kind is Word); assert(t0[rs0[k] as int].kind is Number);
                                assert(rs0[k] + 1 != idx);
                            }
                        }'''),
            dict(before='self.condense_indices', text='assert(pairs_ok(replace_starts@, orig.len() as int)); assert(!in_stretch(replace_starts@, 2, orig.len() as int)); lemma_pairs_tile(orig, self.tokens@, replace_starts@, n, orig.len() as int);'),
            ],
    loops={1: dict(desugar='R3', decreases='__end - __k',
                   invariant=['__end == orig.len() - 1', '__k <= __end', 'orig.len() >= 2', 'orig.len() + 2 <= usize::MAX',
                              'self.tokens@.len() == orig.len()', 'self.source@ == old(self).source@', 'n == self.source@.len()',
                              'tiles(orig, n)', 'toks_in(orig, n)',
                              'forall|i: int| 0 <= i < orig.len() ==> (#[trigger] self.tokens@[i]).span == orig[i].span',
                              'starts_ok(&replace_starts, self.tokens@, __k)'])},
)


NEWLINES_LEMMAS = r'''
// one iteration of the outer loop of condense_newlines: token c absorbed the m tokens after it (m >= 0)
pub proof fn lemma_run_iter(orig: Seq<Token>, n: int, cur0: Seq<Token>, rm0: Seq<usize>, c: int, cur1: Seq<Token>, rm1: Seq<usize>, cursor1: int, m: int, is_start: bool)
    requires tiles(orig, n), cur0.len() == orig.len(), cur1.len() == orig.len(), 0 <= c < orig.len(), 0 <= m, c + m < orig.len(), orig.len() + 4 <= usize::MAX,
        forall|i: int| c <= i < orig.len() ==> cur0[i] == orig[i],
        forall|i: int| 0 <= i < orig.len() && i != c ==> cur1[i] == cur0[i],
        forall|k: int| 0 <= k < rm0.len() ==> #[trigger] rm0[k] < c,
        tiles(keepseq(cur0, rm0, c), bnd(orig, n, c)),
        cur1[c].span.start == orig[c].span.start, cur1[c].span.end == orig[c + m].span.end,
        rm1 == rm0 + Seq::new(m as nat, |k: int| (c + 1 + k) as usize),
        !is_start ==> m == 0 && cursor1 == c + 1,
        is_start ==> cursor1 == c + m + 2,
    ensures tiles(keepseq(cur1, rm1, imin(cursor1, orig.len() as int)), bnd(orig, n, imin(cursor1, orig.len() as int))),
{
    let len = orig.len() as int;
    let tail = Seq::new(m as nat, |k: int| (c + 1 + k) as usize);
    assert forall|i: int| #[trigger] in_rm(rm0, i) implies i < c by {
        let k = choose|k: int| 0 <= k < rm0.len() && #[trigger] rm0[k] as int == i; assert(rm0[k] < c);
    }
    assert forall|i: int| #[trigger] in_rm(rm1, i) <==> (in_rm(rm0, i) || (c + 1 <= i <= c + m)) by {
        if in_rm(rm0, i) { let k = choose|k: int| 0 <= k < rm0.len() && #[trigger] rm0[k] as int == i; assert(rm1[k] as int == i); }
        if c + 1 <= i <= c + m { assert(tail[i - c - 1] as int == i); assert(rm1[rm0.len() + (i - c - 1)] as int == i); }
        if in_rm(rm1, i) {
            let k = choose|k: int| 0 <= k < rm1.len() && #[trigger] rm1[k] as int == i;
            if k < rm0.len() { assert(rm0[k] as int == i); } else { assert(rm1[k] == tail[k - rm0.len()]); }
        }
    }
    lemma_keepseq_agree(cur0, cur1, rm0, rm1, c);
    assert(!in_rm(rm1, c));
    lemma_tiles_bnd(orig, n, c);
    lemma_tiles_bnd(orig, n, c + m);
    lemma_tiles_mono(orig, n, c, c + m);
    assert(keepseq(cur1, rm1, c + 1) == keepseq(cur1, rm1, c).push(cur1[c]));
    lemma_tiles_push(keepseq(cur1, rm1, c), cur1[c], bnd(orig, n, c));
    lemma_keepseq_skip(cur1, rm1, c + 1, c + m + 1);
    assert(bnd(orig, n, c + m + 1) == orig[c + m].span.end);
    if is_start && c + m + 1 < len {
        assert(!in_rm(rm1, c + m + 1));
        assert(cur1[c + m + 1] == orig[c + m + 1]);
        lemma_keep_one(orig, n, cur1, rm1, c + m + 1);
    }
}

'''

NEWLINES = dict(
    props=['C01', 'C02'],
    requires=['sum_ws(old(self).tokens@, 0) <= usize::MAX', 'old(self).tokens@.len() + 4 <= usize::MAX',
              'tiles(old(self).tokens@, old(self).source@.len() as int)'],
    ensures=['tiles(final(self).tokens@, old(self).source@.len() as int)', 'final(self).source@ == old(self).source@'],
    proofs=[dict(before='while cursor', kind='ghost', text='let ghost len0 = copy@.len();'),
            dict(before='while cursor', kind='ghost', text='let ghost n = self.source@.len() as int;'),
            dict(before='while cursor', text='assert(copy@ =~= self.tokens@); assert(keepseq(self.tokens@, remove_these@, 0) =~= Seq::<Token>::empty()); if len0 > 0 { assert(copy@[0].span.start == 0); }'),
            dict(before='let start_tok', kind='ghost', text='let ghost c = cursor;'),
            dict(before='let start_tok', kind='ghost', text='let ghost cur0 = self.tokens@;'),
            dict(before='let start_tok', kind='ghost', text='let ghost rm0 = remove_these@;'),
            dict(before='let start_tok', kind='ghost', text='let ghost mut m: int = 0;'),
            dict(before='let start_tok', kind='ghost', text='let ghost mut is_nl = false;'),
            dict(before='let start_tok', text='lemma_sum_ws_mono(copy@, 0, c as int);'),
            dict(before='loop', text='is_nl = true;'),
            dict(before='*start_count += n', text='lemma_sum_ws_mono(copy@, cursor as int + 1, cursor as int + 1); lemma_sum_ws_mono(copy@, 0, c as int);'),
            dict(before='remove_these.', kind='ghost', text='let ghost before = remove_these@;'),
            dict(after='remove_these.', text='''assert(remove_these@ =~= rm0 + Seq::new((m + 1) as nat, |k: int| (c + 1 + k) as usize)) by {
                                let a = rm0 + Seq::new(m as nat, |k: int| (c + 1 + k) as usize);
                                let b = rm0 + Seq::new((m + 1) as nat, |k: int| (c + 1 + k) as usize);
                                assert(before == a);
                                assert(a.push(cursor) =~= b);
                            }
                            m = m + 1;'''),
            dict(before='self.tokens.remove_indices', text='assert(imin(cursor as int, len0 as int) == len0);'),
            ],
    loops={
        1: dict(invariant=['copy@.len() == len0', 'self.tokens@.len() == len0', 'len0 + 4 <= usize::MAX', 'sum_ws(copy@, 0) <= usize::MAX',
                           'cursor <= len0 + 4',
                           'forall|i: int| cursor <= i < len0 ==> self.tokens@[i] == copy@[i]',
                           'incr(remove_these@)', 'forall|k: int| 0 <= k < remove_these@.len() ==> #[trigger] remove_these@[k] < cursor && remove_these@[k] < len0',
                           'tiles(copy@, n)', 'n == self.source@.len()', 'self.source@ == old(self).source@',
                           'tiles(keepseq(self.tokens@, remove_these@, imin(cursor as int, len0 as int)), bnd(copy@, n, imin(cursor as int, len0 as int)))'],
                decreases='len0 + 4 - cursor',
                end_proof='lemma_run_iter(copy@, n, cur0, rm0, c as int, self.tokens@, remove_these@, cursor as int, m, is_nl);'),
        2: dict(invariant=['copy@.len() == len0', 'c < len0', '0 <= m', 'c + m < len0', 'len0 + 4 <= usize::MAX', 'sum_ws(copy@, 0) <= usize::MAX',
                           '*start_count + sum_ws(copy@, c + m + 1) <= sum_ws(copy@, c as int)',
                           'incr(remove_these@)', 'forall|k: int| 0 <= k < remove_these@.len() ==> #[trigger] remove_these@[k] <= c + m && remove_these@[k] < len0',
                           'tiles(copy@, n)', 'start_tok.span.start == copy@[c as int].span.start', 'start_tok.span.end == copy@[c + m].span.end',
                           'remove_these@ == rm0 + Seq::new(m as nat, |k: int| (c + 1 + k) as usize)'],
                invariant_except_break=['cursor == c + m'],
                ensures=['cursor == c + m + 1'],
                decreases='len0 + 1 - cursor'),
    })


DOTTED = dict(
    props=['C01', 'C02'],
    requires=['tiles(old(self).tokens@, old(self).source@.len() as int)', 'old(self).tokens@.len() + 2 <= usize::MAX'],
    ensures=['tiles(final(self).tokens@, old(self).source@.len() as int)', 'final(self).source@ == old(self).source@'],
    proofs=[dict(before='let mut to_remove', kind='ghost', text='let ghost orig = self.tokens@;'),
            dict(before='let mut to_remove', kind='ghost', text='let ghost n = self.source@.len() as int;'),
            dict(before='loop', text='assert(keepseq(self.tokens@, to_remove@, 0) =~= Seq::<Token>::empty()); assert(orig[0].span.start == 0);'),
            dict(before='let is_initialism_chunk', text='assert(self.tokens@[cursor - 1] == orig[cursor - 1]); lemma_tiles_bnd(orig, n, cursor - 1);'),
            dict(before='if is_initialism_chunk', kind='ghost', text='let ghost rm0 = to_remove@;'),
            dict(before='if is_initialism_chunk', kind='ghost', text='let ghost cur0 = self.tokens@;'),
            dict(before='if is_initialism_chunk', kind='ghost', text='let ghost c0 = cursor;'),
            dict(before='if is_initialism_chunk', kind='ghost', text='let ghost st0 = initialism_start;'),
            dict(after='cursor += 1', nth=1, text='lemma_dot_chunk(orig, n, cur0, rm0, st0, c0 as int, to_remove@);'),
            dict(after='initialism_start = None', text='lemma_dot_close(orig, n, cur0, rm0, st0, c0 as int, self.tokens@, to_remove@); lemma_dot_step(orig, n, self.tokens@, to_remove@, c0 as int);'),
            dict(at='after_loop', loop=1, kind='ghost', text='let ghost cur1 = self.tokens@;'),
            dict(at='after_loop', loop=1, kind='ghost', text='let ghost st1 = initialism_start;'),
            dict(at='after_loop', loop=1, kind='ghost', text='let ghost rmf = to_remove@;'),
            dict(before='self.tokens.remove_indices', text='lemma_dot_close(orig, n, cur1, rmf, st1, cursor as int, self.tokens@, to_remove@); if cursor == orig.len() { lemma_dot_step(orig, n, self.tokens@, to_remove@, cursor as int); }'),
            ],
    loops={1: dict(
        invariant=['self.tokens@.len() == orig.len()', 'orig.len() >= 2', 'orig.len() + 2 <= usize::MAX', 'tiles(orig, n)', 'n == self.source@.len()',
                   'self.source@ == old(self).source@',
                   '1 <= cursor <= orig.len() + 1',
                   'forall|i: int| cursor - 1 <= i < orig.len() ==> self.tokens@[i] == orig[i]',
                   'forall|i: int| 0 <= i < orig.len() && in_rm(to_remove@, i) ==> self.tokens@[i] == orig[i]',
                   'forall|i: int| 0 <= i < orig.len() ==> (#[trigger] self.tokens@[i]).span.start == orig[i].span.start',
                   'start_ok(initialism_start, cursor)',
                   'incr(to_remove@)', 'forall|k: int| 0 <= k < to_remove@.len() ==> #[trigger] to_remove@[k] + 1 < cursor',
                   'dot_inv(orig, n, self.tokens@, to_remove@, initialism_start, cursor as int)'],
        invariant_except_break=['1 <= cursor < orig.len()'],
        ensures=['orig.len() <= cursor <= orig.len() + 1'],
        decreases='orig.len() - cursor')},
)


# quotes 2p and 2p+1 of the list are paired
QUOTES_LEMMAS = '''
// the state of the token list after the first `pairs` pairs (0,1), (2,3), .. of the quote list q have been given their twins
pub open spec fn qkind(t: usize) -> TokenKind { TokenKind::Punctuation(Punctuation::Quote(Quote { twin_loc: Some(t) })) }
pub open spec fn quotes_done(orig: Seq<Token>, cur: Seq<Token>, q: Seq<usize>, pairs: int) -> bool {
    &&& cur.len() == orig.len()
    &&& forall|j: int| 0 <= j < orig.len() ==> (#[trigger] cur[j]).span == orig[j].span
    &&& forall|j: int| 0 <= j < orig.len() && !is_q(orig[j].kind) ==> #[trigger] cur[j] == orig[j]
    &&& forall|k: int| 2 * pairs <= k < q.len() ==> cur[(#[trigger] q[k]) as int] == orig[q[k] as int]
    &&& forall|p: int| 0 <= p < pairs ==> cur[(#[trigger] q[2 * p]) as int].kind == qkind(q[2 * p + 1])
    &&& forall|p: int| 0 <= p < pairs ==> cur[(#[trigger] q[2 * p + 1]) as int].kind == qkind(q[2 * p])
}

pub open spec fn set_twin(c0: Seq<Token>, c1: Seq<Token>, a: usize, b: usize) -> bool {
    &&& c1.len() == c0.len() && a < c0.len()
    &&& c1[a as int].span == c0[a as int].span && c1[a as int].kind == qkind(b)
    &&& forall|j: int| 0 <= j < c0.len() && j != a ==> #[trigger] c1[j] == c0[j]
}
pub proof fn lemma_match_quotes_step1(c0: Seq<Token>, c1: Seq<Token>, a: usize, b: usize)
    requires c1.len() == c0.len(), a < c0.len(), is_q(c0[a as int].kind),
             c1[a as int].span == c0[a as int].span,
             c1[a as int].kind == qkind(b),
             forall|j: int| 0 <= j < c0.len() && j != a ==> #[trigger] c1[j] == c0[j],
    ensures set_twin(c0, c1, a, b),
{}
pub proof fn lemma_match_quotes_pair(orig: Seq<Token>, q: Seq<usize>, c0: Seq<Token>, c1: Seq<Token>, c2: Seq<Token>, i: int)
    requires quote_index_list(orig, q), quotes_done(orig, c0, q, i), 0 <= i, 2 * i + 1 < q.len(),
             set_twin(c0, c1, q[2 * i], q[2 * i + 1]), set_twin(c1, c2, q[2 * i + 1], q[2 * i]),
    ensures quotes_done(orig, c2, q, i + 1),
{
    let a = q[2 * i]; let b = q[2 * i + 1];
    assert(a < b);
    assert forall|k: int| 2 * (i + 1) <= k < q.len() implies c2[(#[trigger] q[k]) as int] == orig[q[k] as int] by { assert(a < q[k] && b < q[k]); }
    assert forall|p: int| 0 <= p < i + 1 implies c2[(#[trigger] q[2 * p]) as int].kind == qkind(q[2 * p + 1]) by {
        if p < i { assert(q[2 * p] < a); assert(q[2 * p] < b); }
    }
    assert forall|p: int| 0 <= p < i + 1 implies c2[(#[trigger] q[2 * p + 1]) as int].kind == qkind(q[2 * p]) by {
        if p < i { assert(q[2 * p + 1] < a); assert(q[2 * p + 1] < b); }
    }
    assert forall|j: int| 0 <= j < orig.len() && !is_q(orig[j].kind) implies #[trigger] c2[j] == orig[j] by { assert(c0[j] == orig[j]); }
    assert forall|j: int| 0 <= j < orig.len() implies (#[trigger] c2[j]).span == orig[j].span by { assert(c0[j].span == orig[j].span); assert(c1[j].span == c0[j].span); }
}
pub proof fn lemma_match_quotes_final(orig: Seq<Token>, q: Seq<usize>, cur: Seq<Token>)
    requires quote_index_list(orig, q), quotes_done(orig, cur, q, (q.len() / 2) as int), orig.len() <= usize::MAX,
             forall|j: int| 0 <= j < orig.len() && is_q(orig[j].kind) ==> twin_of(orig[j].kind) is None,
    ensures
        forall|j: int| 0 <= j < orig.len() ==> is_q((#[trigger] cur[j]).kind) == is_q(orig[j].kind),
        forall|j: int| 0 <= j < cur.len() && twin_of((#[trigger] cur[j]).kind) is Some ==> ({ let t = twin_of(cur[j].kind).unwrap();
            t < cur.len() && t != j && is_q(cur[t as int].kind) && twin_of(cur[t as int].kind) == Some(j as usize) }),
{
    let pairs = (q.len() / 2) as int;
    assert forall|j: int| 0 <= j < orig.len() implies is_q((#[trigger] cur[j]).kind) == is_q(orig[j].kind) by {
        if is_q(orig[j].kind) {
            let k = lemma_quote_of(orig, q, j);
            if k < 2 * pairs { let p = k / 2; if k == 2 * p { assert(cur[q[2 * p] as int].kind == qkind(q[2 * p + 1])); } else { assert(k == 2 * p + 1); assert(cur[q[2 * p + 1] as int].kind == qkind(q[2 * p])); } }
            else { assert(cur[q[k] as int] == orig[q[k] as int]); }
        } else { assert(cur[j] == orig[j]); }
    }
    assert forall|j: int| 0 <= j < cur.len() && twin_of((#[trigger] cur[j]).kind) is Some implies ({ let t = twin_of(cur[j].kind).unwrap();
            t < cur.len() && t != j && is_q(cur[t as int].kind) && twin_of(cur[t as int].kind) == Some(j as usize) }) by {
        if !is_q(orig[j].kind) { assert(cur[j] == orig[j]); }
        else {
            let k = lemma_quote_of(orig, q, j);
            if k < 2 * pairs {
                let p = k / 2;
                assert(q[2 * p] < q[2 * p + 1]);
                if k == 2 * p { assert(cur[q[2 * p] as int].kind == qkind(q[2 * p + 1])); assert(cur[q[2 * p + 1] as int].kind == qkind(q[2 * p])); }
                else { assert(k == 2 * p + 1); assert(cur[q[2 * p + 1] as int].kind == qkind(q[2 * p])); assert(cur[q[2 * p] as int].kind == qkind(q[2 * p + 1])); }
            } else {
                assert(cur[q[k] as int] == orig[q[k] as int]);
            }
        }
    }
}

pub proof fn lemma_quote_of(t: Seq<Token>, q: Seq<usize>, j: int) -> (k: int)
    requires quote_index_list(t, q), 0 <= j < t.len(), is_q(t[j].kind), t.len() <= usize::MAX,
    ensures 0 <= k < q.len(), q[k] == j,
{
    assert(q.contains(j as usize));
    choose|k: int| 0 <= k < q.len() && q[k] == j as usize
}
'''

MATCH_QUOTES = dict(
    props=['C01', 'C02'],
    # the lexers create quote tokens without a twin (lex_quote: `twin_loc: None`); an odd quote out keeps that
    requires=['forall|j: int| 0 <= j < old(self).tokens@.len() && is_q(old(self).tokens@[j].kind) ==> twin_of(old(self).tokens@[j].kind) is None'],
    ensures=['final(self).source@ == old(self).source@', 'final(self).tokens@.len() == old(self).tokens@.len()',
             # only twin positions change: spans and every non-quote token stay, quotes stay quotes
             'forall|j: int| 0 <= j < old(self).tokens@.len() ==> (#[trigger] final(self).tokens@[j]).span == old(self).tokens@[j].span',
             'forall|j: int| 0 <= j < old(self).tokens@.len() && !is_q(old(self).tokens@[j].kind) ==> #[trigger] final(self).tokens@[j] == old(self).tokens@[j]',
             'forall|j: int| 0 <= j < old(self).tokens@.len() ==> is_q((#[trigger] final(self).tokens@[j]).kind) == is_q(old(self).tokens@[j].kind)',
             # C02: "quote tokens point at existing twin quotes" -- another token, a quote, that points back
             'forall|j: int| 0 <= j < final(self).tokens@.len() && twin_of((#[trigger] final(self).tokens@[j]).kind) is Some ==> ({ let t = twin_of(final(self).tokens@[j].kind).unwrap(); '
             't < final(self).tokens@.len() && t != j && is_q(final(self).tokens@[t as int].kind) && twin_of(final(self).tokens@[t as int].kind) == Some(j as usize) })'],
    proofs=[dict(before='for i in', kind='ghost', text='let ghost orig = self.tokens@;'),
            dict(before='for i in', kind='ghost', text='let ghost q = quote_indices@;'),
            dict(before='let a_i', text='assert(q[i * 2] < q[i * 2 + 1]);'),
            dict(before='let a_i', kind='ghost', text='let ghost cur0 = self.tokens@;'),
            dict(after='let b_i', text='assert(cur0[a_i as int] == orig[a_i as int]); assert(cur0[b_i as int] == orig[b_i as int]);'),
            dict(after='a.twin_loc', after_block=True, text='lemma_match_quotes_step1(cur0, self.tokens@, a_i, b_i);'),
            dict(after='a.twin_loc', after_block=True, kind='ghost', text='let ghost cur1 = self.tokens@;'),
            dict(at='body_end', text='assert(self.tokens@.len() <= usize::MAX) by { broadcast use vstd::std_specs::vec::axiom_spec_len; let _l = self.tokens.len(); } lemma_match_quotes_final(orig, q, self.tokens@);')],
    loops={1: dict(invariant=['self.source@ == old(self).source@', 'q == quote_indices@', 'quote_index_list(orig, q)', 'orig == old(self).tokens@',
                              'quotes_done(orig, self.tokens@, q, i as int)'],
                   end_proof='lemma_match_quotes_step1(cur1, self.tokens@, b_i, a_i); lemma_match_quotes_pair(orig, q, cur0, cur1, self.tokens@, i as int);')},
)


def build(repo):
    U = Unit(NAME, repo)
    U.header = common.HEADER
    common.add_span(U, ['len', 'get_content', 'try_get_content', 'is_empty'], props=('C02',))
    U.raw('#[verifier::external_body] pub struct WordMetadata { _p: u8 }\n#[verifier::external_body] pub struct Currency { _p: u8 }\n'
          '#[verifier::external_body] #[verifier::reject_recursive_types(T)] pub struct OrderedFloat<T> { _p: T }', name='opaque-types')
    U.item('harper-core/src/number.rs', 'enum NumberSuffix', derive=('Clone', 'Copy', 'PartialEq', 'Eq'))
    U.item('harper-core/src/number.rs', 'struct Number', derive=())
    U.raw(NUMBER_SPEC.split('pub open spec fn suffix_text')[0], name='spec:suffix_of')
    U.impl('harper-core/src/number.rs', 'impl NumberSuffix', {
        'from_chars': dict(result='r', props=['C17', 'C02'],
                           ensures=['chars@.len() < 2 ==> r.is_none()', 'chars@.len() >= 2 ==> r == suffix_of(chars@[0], chars@[1])'])})
    U.item('harper-core/src/punctuation.rs', 'struct Quote', derive=())
    U.item('harper-core/src/punctuation.rs', 'enum Punctuation', derive=())
    U.item('harper-core/src/token_kind.rs', 'enum TokenKind', derive=())
    U.item('harper-core/src/token.rs', 'struct Token', derive=())
    U.raw(common.TOKEN_VOCAB, name='lemmas:tokens')
    U.raw(LEX_VOCAB.split('// plain-English tokens tile')[1].join(['// plain-English tokens tile', '']) if False else '', name='')
    U.raw(PRELUDE, name='trusted:document-prelude')
    common.add_vecext(U, props=['C02'])
    U.item(D, 'struct Document', derive=())
    U.raw('// plain-English tokens tile' + LEX_VOCAB.split('// plain-English tokens tile')[1], name='spec:tiles')
    U.raw(WS, name='lemmas:ws', props=['C01'])
    U.raw(DOT_LEMMAS, name='lemmas:dotted-initialisms', props=['C02'])
    U.raw(SPACES_LEMMAS, name='lemmas:condense-spaces', props=['C02'])
    U.raw(TILES_LEMMAS, name='lemmas:tiles', props=['C02'])
    U.raw(NEWLINES_LEMMAS, name='lemmas:condense-newlines', props=['C02'])
    U.raw(NUMSUF_LEMMAS, name='lemmas:number-suffixes', props=['C02', 'C17'])
    U.raw(CI_LEMMAS, name='lemmas:condense-indices', props=['C02', 'C17'])
    U.raw(QUOTES_LEMMAS, name='lemmas:match-quotes', props=['C02'])
    U.impl(D, 'impl Document', {
        'newlines_to_breaks': dict(
            props=['C01', 'C02'],
            # only kinds change: every span stays what it was (so any tiling is kept), and a kind changes only from a
            # Newline of two or more to a ParagraphBreak
            ensures=['final(self).source@ == old(self).source@', 'final(self).tokens@.len() == old(self).tokens@.len()',
                     'forall|j: int| 0 <= j < old(self).tokens@.len() ==> (#[trigger] final(self).tokens@[j]).span == old(self).tokens@[j].span',
                     'forall|j: int| 0 <= j < old(self).tokens@.len() ==> (#[trigger] final(self).tokens@[j]).kind == old(self).tokens@[j].kind || (final(self).tokens@[j].kind is ParagraphBreak && old(self).tokens@[j].kind is Newline)'],
            loops={1: dict(desugar='R8', invariant=[
                'self.source@ == old(self).source@', '__i <= self.tokens@.len()', 'self.tokens@.len() == old(self).tokens@.len()',
                'forall|j: int| __i <= j < self.tokens@.len() ==> self.tokens@[j] == old(self).tokens@[j]',
                'forall|j: int| 0 <= j < __i ==> (#[trigger] self.tokens@[j]).span == old(self).tokens@[j].span',
                'forall|j: int| 0 <= j < __i ==> (#[trigger] self.tokens@[j]).kind == old(self).tokens@[j].kind || (self.tokens@[j].kind is ParagraphBreak && old(self).tokens@[j].kind is Newline)',
            ], decreases='self.tokens@.len() - __i')},
        ),
        'match_quotes': MATCH_QUOTES,
        'condense_newlines': NEWLINES,
        'condense_spaces': SPACES,
        'condense_dotted_initialisms': DOTTED,
        'get_span_content': dict(result='r', props=['C02'], requires=['span.start <= span.end', 'span.end <= self.sp_source().len()'],
                                 ensures=['span.start < span.end ==> r@ == self.sp_source().subrange(span.start as int, span.end as int)', 'span.start == span.end ==> r@.len() == 0']),
        'condense_indices': CONDENSE_INDICES,
        'condense_number_suffixes': NUMSUF,
    }, nth=0, extra_members='    pub closed spec fn sp_source(&self) -> Seq<char> { self.source@ }')
    U.raw(common.FOOTER)
    return U
