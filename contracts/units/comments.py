"""Unit `comments` (C01, C02, C04): the line-based comment parser every programming-language front-end runs its comment text
through (harper-comments: `Unit`, `parse_line`, `line_is_code_fence`, and `Go` on top of it).  GIVEN the inner parser's contract
(in-bounds ordered tokens of the text it is handed -- proved for PlainEnglish, assumed for Markdown) the result for the whole
comment is again in bounds and ordered: every line's tokens are moved behind the comment markers of that line and to the line's
offset, a Newline token sits on each LF, fenced code lines produce nothing.  No slice / index / `Span::new` / `get_content`
panic, no overflow, termination.

Desugarings: R10 (`for line in source.split(..)`, with `continue`), R14 (`iter_mut().for_each(..)`), R6 (slice patterns)."""
from vx.extract import Unit
from . import common
from .mask_parser import SPEC as TOKS_SPEC

NAME = 'comments'
C = 'harper-comments/src/comment_parsers/'

PRELUDE = '''
pub type Lrc<T> = std::rc::Rc<T>;
pub open spec fn imin(a: int, b: int) -> int { if a <= b { a } else { b } }
// a Rust allocation (hence a slice) occupies at most isize::MAX bytes and a char is 4 bytes wide
#[verifier::external_body]
pub broadcast proof fn axiom_char_slice_bytes(s: &[char])
    ensures #[trigger] s@.len() * 8 <= usize::MAX {}
pub assume_specification<T: PartialEq> [<[T]>::contains] (s: &[T], x: &T) -> (b: bool);
'''

OFFSETS = r'''
// ---- "each word at its true offset": what the line-based comment parser returns, as a function of the text, of the inner
// parser's result (sp_parse) and of which characters without_initiators strips (wi: specification-only name of its result) ----
pub uninterp spec fn wi(source: Seq<char>) -> Span;
pub open spec fn is_fence(line: Seq<char>) -> bool {
    let a = wi(line);
    a.start < a.end && a.end - a.start >= 3 && line[a.start as int] == '`' && line[a.start + 1] == '`' && line[a.start + 2] == '`'
}
pub open spec fn line_toks(p: &dyn Parser, line: Seq<char>) -> Seq<Token> {
    let a = wi(line);
    if a.start == a.end { Seq::empty() } else { shift_all(p.sp_parse(line.subrange(a.start as int, a.end as int)), a.start as int) }
}
pub open spec fn line_end(s: Seq<char>, a: int) -> int
    decreases s.len() - a
{
    if a < 0 || a >= s.len() { s.len() as int } else if s[a] == '\n' { a } else { line_end(s, a + 1) }
}
pub proof fn lemma_line_end(s: Seq<char>, a: int)
    requires 0 <= a <= s.len(),
    ensures a <= line_end(s, a) <= s.len(), forall|k: int| a <= k < line_end(s, a) ==> s[k] != '\n', line_end(s, a) < s.len() ==> s[line_end(s, a)] == '\n',
    decreases s.len() - a
{
    if a < s.len() && s[a] != '\n' { lemma_line_end(s, a + 1); }
}
// the scan of the desugared split loop stops exactly at line_end
pub proof fn lemma_line_end_is(s: Seq<char>, a: int, e: int)
    requires 0 <= a <= e <= s.len(), forall|k: int| a <= k < e ==> s[k] != '\n', e < s.len() ==> s[e] == '\n',
    ensures line_end(s, a) == e,
    decreases e - a
{
    if a < e { lemma_line_end_is(s, a + 1, e); }
}
pub open spec fn nl_tok(at: int) -> Token { Token { span: Span { start: at as usize, end: (at + 1) as usize }, kind: TokenKind::Newline(1) } }
// what Unit::parse returns for the text from line start `a` on, given the fence state before that line
pub open spec fn unit_toks(p: &dyn Parser, s: Seq<char>, a: int, fence: bool) -> Seq<Token>
    decreases s.len() - a + 1
{
    if a < 0 || a > s.len() { Seq::empty() } else {
        let e = line_end(s, a);
        let line = s.subrange(a, e);
        let f2 = if is_fence(line) { !fence } else { fence };
        let here = if f2 { Seq::empty() } else {
            shift_all(line_toks(p, line) + (if e < s.len() { seq![nl_tok(e - a)] } else { Seq::<Token>::empty() }), a)
        };
        if a <= e < s.len() { here + unit_toks(p, s, e + 1, f2) } else { here }
    }
}

'''

SHIFT_INV = lambda by, bound: [
    'new_tokens@.len() == nt0.len()',
    f'forall|j: int| 0 <= j < nt0.len() ==> span_in((#[trigger] nt0[j]).span, {bound})',
    'forall|j: int| __i <= j < new_tokens@.len() ==> new_tokens@[j] == nt0[j]',
    f'forall|j: int| 0 <= j < __i ==> (#[trigger] new_tokens@[j]).span.start == nt0[j].span.start + {by} && new_tokens@[j].span.end == nt0[j].span.end + {by} && new_tokens@[j].kind == nt0[j].kind',
]

PARSE_LINE = dict(
    result='r', props=['C01', 'C02', 'C04'],
    ensures=['toks_ok(r@, source@.len() as int)',
             # the inner parser's tokens for the text behind the comment markers, each moved by exactly the width of the markers
             'parser.sp_det() ==> r@ == line_toks(&*parser, source@)'],
    for_each=[dict(invariant=['actual.start <= actual.end', 'actual.end <= src0.len()', 'ordered(nt0)'] + SHIFT_INV('actual.start', 'actual.end - actual.start'),
                   body_proof='assert(span_in(nt0[__i - 1].span, actual.end - actual.start));')],
    proofs=[dict(at='body_start', kind='ghost', text='let ghost src0 = source@;'),
            dict(before='new_tokens.iter_mut', kind='ghost', text='let ghost nt0 = new_tokens@;'),
            dict(before='new_tokens', nth=2, text='''
        assert forall|j: int| 0 <= j < new_tokens@.len() implies span_in((#[trigger] new_tokens@[j]).span, src0.len() as int) by { assert(span_in(nt0[j].span, actual.end - actual.start)); }
        assert forall|i: int, j: int| 0 <= i < j < new_tokens@.len() implies (#[trigger] new_tokens@[i]).span.end <= (#[trigger] new_tokens@[j]).span.start by { assert(nt0[i].span.end <= nt0[j].span.start); }''')],
)

UNIT_PARSE = dict(
    result='r', props=['C01', 'C02', 'C04'],
    loops={1: dict(desugar='R10', invariant=[
        'source@.len() * 8 <= usize::MAX',
        '!__fin ==> chars_traversed == __s', '__fin ==> chars_traversed == source@.len() + 1',
        'toks_ok(tokens@, source@.len() as int)', 'toks_before(tokens@, imin(chars_traversed as int, source@.len() as int))',
        'total == unit_toks(&*self.inner, source@, 0, false)',
        'self.inner.sp_det() && !__fin ==> tokens@ + unit_toks(&*self.inner, source@, __s as int, in_code_fence) == total',
        'self.inner.sp_det() && __fin ==> tokens@ == total'],
        scan_invariant=["forall|__q: int| __s <= __q < __e ==> #[trigger] source@[__q] != '\\n'"],
        scan_ensures=["__e < source@.len() ==> source@[__e as int] == '\\n'"])},
    for_each=[dict(invariant=['chars_traversed <= source@.len()', 'source@.len() * 8 <= usize::MAX'] + SHIFT_INV('chars_traversed', 'source@.len() - chars_traversed'),
                   body_proof='assert(span_in(nt0[__i - 1].span, source@.len() - chars_traversed));')],
    proofs=[dict(at='body_start', kind='broadcast', text='broadcast use axiom_char_slice_bytes;'),
            dict(before='for line in', kind='ghost', text='let ghost total = unit_toks(&*self.inner, source@, 0, false);'),
            dict(at='loop_body_start', loop=1, kind='ghost', text='let ghost fence0 = in_code_fence;'),
            dict(at='loop_body_start', loop=1, kind='ghost', text='let ghost tk0 = tokens@;'),
            dict(at='loop_body_start', loop=1, text='lemma_line_end_is(source@, __ls as int, __e as int); assert(line@ == source@.subrange(__ls as int, __e as int));'),
            dict(before='continue;', text='if self.inner.sp_det() { assert(unit_toks(&*self.inner, source@, __ls as int, fence0) == (if __e < source@.len() { Seq::<Token>::empty() + unit_toks(&*self.inner, source@, __e + 1, in_code_fence) } else { Seq::<Token>::empty() })); assert(tk0 + Seq::<Token>::empty() =~= tk0); if __e < source@.len() { assert(Seq::<Token>::empty() + unit_toks(&*self.inner, source@, __e + 1, in_code_fence) =~= unit_toks(&*self.inner, source@, __e + 1, in_code_fence)); } }'),
            dict(after='let mut new_tokens', kind='ghost', text='let ghost pl = new_tokens@;'),
            dict(before='new_tokens.iter_mut', kind='ghost', text='let ghost nt0 = new_tokens@;'),
            dict(before='new_tokens.iter_mut', text='''
                assert forall|j: int| 0 <= j < nt0.len() implies span_in((#[trigger] nt0[j]).span, source@.len() - chars_traversed) by {
                    if j < pl.len() { assert(nt0[j] == pl[j]); assert(span_in(pl[j].span, line@.len() as int)); }
                }
                assert forall|i: int, j: int| 0 <= i < j < nt0.len() implies (#[trigger] nt0[i]).span.end <= (#[trigger] nt0[j]).span.start by {
                    assert(nt0[i] == pl[i]); assert(span_in(pl[i].span, line@.len() as int));
                    if j < pl.len() { assert(nt0[j] == pl[j]); }
                }'''),
            dict(before='chars_traversed += line.len() + 1', nth=2, text='''
                assert forall|j: int| 0 <= j < new_tokens@.len() implies chars_traversed <= (#[trigger] new_tokens@[j]).span.start <= new_tokens@[j].span.end <= imin(chars_traversed + line@.len() + 1, source@.len() as int) by {
                    assert(span_in(nt0[j].span, source@.len() - chars_traversed));
                    if j < pl.len() { assert(nt0[j] == pl[j]); assert(span_in(pl[j].span, line@.len() as int)); }
                }
                assert forall|i: int, j: int| 0 <= i < j < new_tokens@.len() implies (#[trigger] new_tokens@[i]).span.end <= (#[trigger] new_tokens@[j]).span.start by {
                    assert(nt0[i].span.end <= nt0[j].span.start);
                }
                lemma_append_shifted(tokens@, new_tokens@, source@.len() as int, chars_traversed as int, imin(chars_traversed + line@.len() + 1, source@.len() as int));
                if self.inner.sp_det() {
                    let here = shift_all(line_toks(&*self.inner, line@) + (if __e < source@.len() { seq![nl_tok(__e - __ls)] } else { Seq::<Token>::empty() }), __ls as int);
                    assert(nt0 =~= line_toks(&*self.inner, line@) + (if __e < source@.len() { seq![nl_tok(__e - __ls)] } else { Seq::<Token>::empty() }));
                    assert(new_tokens@ =~= here);
                    assert(unit_toks(&*self.inner, source@, __ls as int, fence0) == (if __e < source@.len() { here + unit_toks(&*self.inner, source@, __e + 1, in_code_fence) } else { here }));
                    if __e < source@.len() { assert(tk0 + (here + unit_toks(&*self.inner, source@, __e + 1, in_code_fence)) =~= (tk0 + here) + unit_toks(&*self.inner, source@, __e + 1, in_code_fence)); }
                }'''),
            ],
)

GO_PARSE = dict(
    result='r', props=['C01', 'C02', 'C04'], slice_matches=True,
    # whatever is skipped in front, the rest is handled exactly like a Unit comment, and moved back by exactly what was skipped
    ensures=['self.go_post(source@, r@)'],
    for_each=[dict(invariant=['start <= source@.len()', 'source@.len() * 8 <= usize::MAX', 'ordered(nt0)'] + SHIFT_INV('start', 'source@.len() - start'),
                   body_proof='assert(span_in(nt0[__i - 1].span, source@.len() - start));')],
    proofs=[dict(at='body_start', kind='broadcast', text='broadcast use axiom_char_slice_bytes;'),
            dict(before='new_tokens.iter_mut', kind='ghost', text='let ghost nt0 = new_tokens@;'),
            dict(before='new_tokens', nth=2, text='''
        if self.inner.sp_det() { assert(new_tokens@ =~= shift_all(nt0, start as int)); assert(nt0 == unit_toks(&*self.inner, source@.subrange(start as int, source@.len() as int), 0, false)); }
        assert forall|j: int| 0 <= j < new_tokens@.len() implies span_in((#[trigger] new_tokens@[j]).span, source@.len() as int) by { assert(span_in(nt0[j].span, source@.len() - start)); }
        assert forall|i: int, j: int| 0 <= i < j < new_tokens@.len() implies (#[trigger] new_tokens@[i]).span.end <= (#[trigger] new_tokens@[j]).span.start by { assert(nt0[i].span.end <= nt0[j].span.start); }''')],
)

SP_MEMBERS = '    open spec fn sp_det(&self) -> bool { false }\n    open spec fn sp_parse(&self, source: Seq<char>) -> Seq<Token> { Seq::empty() }'


def build(repo):
    U = Unit(NAME, repo)
    U.header = common.HEADER
    common.add_span(U, list(common.SPAN_FNS), props=('C01',))
    common.add_tokens(U)
    U.impl('harper-core/src/token.rs', 'impl Token', {'new': dict(result='r', props=['C01'], ensures=['r.span == span', 'r.kind == kind'])})
    U.raw(PRELUDE, name='trusted:prelude')
    U.raw(TOKS_SPEC, name='spec:toks_ok')
    U.raw(common.POSITION_SPEC, name='trusted:position')
    U.trait('harper-core/src/parsers/mod.rs', 'trait Parser', {'parse': dict(result='r', ensures=['toks_ok(r@, source@.len() as int)', 'self.sp_det() ==> r@ == self.sp_parse(source@)'],
                                                                             note='the front-end contract of C02; proved for PlainEnglish in unit lexing')},
            cfg_not='cfg(feature="concurrent")',
            extra_members='    spec fn sp_parse(&self, source: Seq<char>) -> Seq<Token>;\n    spec fn sp_det(&self) -> bool;')
    U.raw(OFFSETS, name='spec:unit_toks', props=['C04'])
    U.fn(C + 'mod.rs', 'is_comment_character', dict(props=['C01']))
    U.fn(C + 'mod.rs', 'without_initiators', dict(
        result='r', external_body=True, props=['C01', 'C02', 'C04'], ensures=['r.start <= r.end', 'r.end <= source@.len()', 'r == wi(source@)'],
        assumed='r.start <= r.end <= |source| (so Span::new cannot panic and get_content stays inside the line); wi(source) is merely a specification-only name for the result (a function of the text)',
        note='iter().position() / iter().rev().position() with a predicate that calls char::is_whitespace twice on the same character: vstd ships a '
             'specification of char::is_whitespace WITHOUT a result function and rejects a second one, so the two scans cannot be related in this Verus; '
             'checked by rac:comment_frontends / rac:prose_offsets only'))
    U.fn(C + 'unit.rs', 'line_is_code_fence', dict(result='r', props=['C01', 'C04'], slice_matches=True, ensures=['r == is_fence(source@)']))
    U.fn(C + 'unit.rs', 'parse_line', PARSE_LINE)
    U.item(C + 'unit.rs', 'struct Unit', derive=())
    U.impl(C + 'unit.rs', 'impl Unit', {'new': dict(result='r', props=['C01', 'C04'], ensures=['r.sp_det() == parser.sp_det()', 'forall|s: Seq<char>| #[trigger] r.sp_parse(s) == unit_toks(&*parser, s, 0, false)'])})
    U.impl(C + 'unit.rs', 'impl Parser for Unit', {'parse': UNIT_PARSE},
           extra_members='    // the Parser contract `sp_det ==> r == sp_parse(source)` then says: every line\'s tokens are exactly the inner parser\'s tokens for the text behind\n    // the markers, moved by the markers\' width plus the line\'s offset; a Newline token on every LF; nothing from fenced lines\n    closed spec fn sp_det(&self) -> bool { self.inner.sp_det() }\n    closed spec fn sp_parse(&self, source: Seq<char>) -> Seq<Token> { unit_toks(&*self.inner, source, 0, false) }')
    U.item(C + 'go.rs', 'struct Go', derive=())
    U.raw('''
impl Go {
    // (the field `inner` is private, so the postcondition is wrapped in a specification function of the type)
    pub closed spec fn go_post(&self, source: Seq<char>, r: Seq<Token>) -> bool {
        self.inner.sp_det() ==> r.len() == 0 || exists|st: int| 0 <= st <= source.len() && r == shift_all(unit_toks(&*self.inner, #[trigger] source.subrange(st, source.len() as int), 0, false), st)
    }
}
''', name='spec:go_post', props=['C04'])
    U.impl(C + 'go.rs', 'impl Parser for Go', {'parse': GO_PARSE}, extra_members=SP_MEMBERS)
    # harper-ls: the git-commit front-end hands everything before the first '#' to the inner parser
    G = 'harper-ls/src/git_commit_parser.rs'
    U.item(G, 'struct GitCommitParser', derive=())
    U.impl(G, 'impl Parser for GitCommitParser', {'parse': dict(
        result='r', props=['C01', 'C02', 'C04'],
        proofs=[dict(after='let end', text='assert(end <= source@.len());'),
                dict(at='body_start', kind='ghost', text='let ghost n = source@.len() as int;')])},
        extra_members=SP_MEMBERS)
    U.raw(common.FOOTER)
    return U
