"""Unit `number` (C17, C02): NumberSuffix::from_chars / to_chars for slices of every length, and the
span arithmetic that puts the lint on "exactly the two suffix letters"."""
from vx.extract import Unit
from . import common

NAME = 'number'
N = 'harper-core/src/number.rs'

SPEC = '''
pub open spec fn lower(c: char) -> char {
    if 'A' <= c && c <= 'Z' { ((c as u32) + 32) as char } else { c }
}
// the suffix a pair of letters denotes, ignoring case (C17: "st/nd/rd/th in any letter case")
pub open spec fn suffix_of(a: char, b: char) -> Option<NumberSuffix> {
    if lower(a) == 't' && lower(b) == 'h' { Some(NumberSuffix::Th) }
    else if lower(a) == 's' && lower(b) == 't' { Some(NumberSuffix::St) }
    else if lower(a) == 'n' && lower(b) == 'd' { Some(NumberSuffix::Nd) }
    else if lower(a) == 'r' && lower(b) == 'd' { Some(NumberSuffix::Rd) }
    else { None }
}
pub open spec fn suffix_text(s: NumberSuffix) -> Seq<char> {
    match s {
        NumberSuffix::Th => seq!['t', 'h'],
        NumberSuffix::St => seq!['s', 't'],
        NumberSuffix::Nd => seq!['n', 'd'],
        NumberSuffix::Rd => seq!['r', 'd'],
    }
}
// round trip at spec level: the text of the suffix a pair denotes is that pair, lower-cased
pub proof fn lemma_suffix_roundtrip(a: char, b: char)
    ensures suffix_of(a, b) matches Some(s) ==> suffix_text(s) =~= seq![lower(a), lower(b)],
            forall|s: NumberSuffix| suffix_of(suffix_text(s)[0], suffix_text(s)[1]) == Some(s),
{
    assert forall|s: NumberSuffix| suffix_of(suffix_text(s)[0], suffix_text(s)[1]) == Some(s) by {
        match s { NumberSuffix::Th => {}, NumberSuffix::St => {}, NumberSuffix::Nd => {}, NumberSuffix::Rd => {} }
    }
}
// "the lint covers exactly the two suffix letters": CorrectNumberSuffix builds
// Span::new_with_len(tok.end, 2).pulled_by(2); the unit proves what that evaluates to.
pub fn suffix_span_of(end: usize) -> (r: Option<Span>)
    requires end + 2 <= usize::MAX,
    ensures end >= 2 ==> r == Some(Span { start: (end - 2) as usize, end: end }),
            end < 2 ==> r.is_none(),
{
    Span::new_with_len(end, 2).pulled_by(2)
}
'''


def build(repo):
    U = Unit(NAME, repo)
    U.header = common.HEADER
    common.add_span(U, ['new_with_len', 'pulled_by'], props=('C17',))
    U.item(N, 'enum NumberSuffix', derive=('Clone', 'Copy', 'PartialEq', 'Eq'))
    U.raw(SPEC, name='lemmas:suffix', props=['C17', 'C02'])
    U.impl(N, 'impl NumberSuffix', {
        'from_chars': dict(result='r', props=['C17', 'C02'],
                           ensures=['chars@.len() < 2 ==> r.is_none()',
                                    'chars@.len() >= 2 ==> r == suffix_of(chars@[0], chars@[1])']),
        'to_chars': dict(result='r', props=['C17', 'C02'], ensures=['r@ =~= suffix_text(self)']),
    })
    U.raw(common.FOOTER)
    return U
