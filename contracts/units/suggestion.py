"""Unit `suggestion` (C03): Suggestion::apply equals the mathematical splice, for all inputs."""
from vx.extract import Unit
from . import common

NAME = 'suggestion'

SPEC = '''
// The property text, as a function: what "apply suggestion s at span to text src" must produce.
pub open spec fn applied(s: Suggestion, span: Span, src: Seq<char>) -> Seq<char> {
    match s {
        Suggestion::ReplaceWith(c) => src.subrange(0, span.start as int) + c@ + src.subrange(span.end as int, src.len() as int),
        Suggestion::InsertAfter(c) => src.subrange(0, span.end as int) + c@ + src.subrange(span.end as int, src.len() as int),
        Suggestion::Remove => src.subrange(0, span.start as int) + src.subrange(span.end as int, src.len() as int),
    }
}

// Restatement of C03 over `applied` (lemmas; independent of the implementation).
pub proof fn lemma_applied_local(s: Suggestion, span: Span, src: Seq<char>)
    requires span.start <= span.end <= src.len(),
    ensures
        // everything before the span is preserved character for character
        forall|k: int| 0 <= k < span.start ==> #[trigger] applied(s, span, src)[k] == src[k],
        // everything after the span is preserved, shifted by the length change
        forall|k: int| span.end <= k < src.len() ==>
            #[trigger] src[k] == applied(s, span, src)[k + (applied(s, span, src).len() - src.len())],
        // replace substitutes exactly the flagged characters
        s matches Suggestion::ReplaceWith(c) ==> applied(s, span, src).len() == src.len() - (span.end - span.start) + c@.len()
            && applied(s, span, src).subrange(span.start as int, span.start + c@.len()) =~= c@,
        // insert-after keeps the flagged text and adds right after it
        s matches Suggestion::InsertAfter(c) ==> applied(s, span, src).len() == src.len() + c@.len()
            && applied(s, span, src).subrange(span.start as int, span.end as int) =~= src.subrange(span.start as int, span.end as int)
            && applied(s, span, src).subrange(span.end as int, span.end + c@.len()) =~= c@,
        // remove deletes exactly the flagged characters
        s matches Suggestion::Remove ==> applied(s, span, src).len() == src.len() - (span.end - span.start),
{
}

// Span rebase used by the chunk cache: pull then push by the same amount is the identity.
pub proof fn lemma_rebase(s: Span, k: usize)
    requires s.start <= s.end, k <= s.start,
    ensures ({ let p = Span { start: (s.start - k) as usize, end: (s.end - k) as usize };
               Span { start: (p.start + k) as usize, end: (p.end + k) as usize } == s }),
{
}
'''

APPLY = dict(
    props=['C03'],
    requires=['span.start <= span.end <= old(source)@.len()'],
    ensures=['final(source)@ =~= applied(*self, span, old(source)@)'],
    proofs=[dict(at='body_start', kind='broadcast', text='broadcast use ext_seq_vec, ext_seq_vec_ref, ext_seq_skip;')],
    loops={
        1: dict(desugar='R1',
                invariant=['__k <= chars@.len()', 'chars@.len() == span.end - span.start',
                           'source@.len() == old(source)@.len()', 'span.start <= span.end <= source@.len()',
                           'forall|k: int| 0 <= k < source@.len() ==> #[trigger] source@[k] == (if span.start <= k < span.start + __k { chars@[k - span.start] } else { old(source)@[k] })'],
                decreases='chars@.len() - __k'),
        2: dict(invariant=['source@.len() == old(source)@.len()', 'span.start <= span.end <= source@.len()',
                           'forall|k: int| 0 <= k < source@.len() ==> #[trigger] source@[k] == (if span.start <= k < i - (span.end - span.start) { old(source)@[k + (span.end - span.start)] } else { old(source)@[k] })']),
    },
)


def build(repo):
    U = Unit(NAME, repo)
    U.header = common.HEADER
    common.add_span(U, ['len', 'pulled_by', 'pushed_by'], props=('C03',))
    U.raw(common.EXTEND_SPECS, name='trusted:extend')
    U.item('harper-core/src/linting/suggestion.rs', 'enum Suggestion')
    U.raw(SPEC, name='lemmas:applied', props=['C03'])
    U.raw('''
// ---- trusted std: char case predicates / conversions are total pure functions (no postcondition) ----
pub assume_specification [char::is_ascii_uppercase](c: &char) -> (b: bool);
pub assume_specification [char::is_uppercase](c: char) -> (b: bool);
pub assume_specification [char::to_ascii_uppercase](c: &char) -> (r: char);
pub assume_specification [char::to_ascii_lowercase](c: &char) -> (r: char);
''', name='trusted:char-case')
    U.impl('harper-core/src/linting/suggestion.rs', 'impl Suggestion', {
        'apply': APPLY,
        # the replacement keeps its length (only the case of its letters follows the template): whatever a rule passes in, the
        # suggestion is a ReplaceWith of as many characters
        'replace_with_match_case': dict(result='r', props=['C03'],
                                        ensures=['r matches Suggestion::ReplaceWith(v) && v@.len() == value@.len()'],
                                        loops={1: dict(desugar='R18', invariant=['value@.len() == len0'])},
                                        proofs=[dict(at='body_start', kind='ghost', text='let ghost len0 = value@.len();')])})
    U.raw(common.FOOTER)
    return U
