"""Unit `mask_parser` (C01, C02): parsers::Mask<M, P>::parse - the composition every masked front-end goes
through (comments of all programming languages, Literate Haskell, ...) - returns tokens that lie inside the
file, in increasing, non-overlapping order, GIVEN the trait contracts of its two parts: the Masker returns a
well-formed mask inside the text, the inner Parser returns in-bounds ordered tokens of the chunk it is handed.
The inner parser contract is the one PROVED for PlainEnglish (unit lexing: tiles => toks_in and ordered).
Third postcondition ("each word at its true offset"): for every allowed chunk k the tokens the inner parser returns for
that chunk appear in the result as one contiguous block, each moved right by exactly the chunk's start (for inner parsers
whose result is a function of their input, flagged by the specification-only member sp_det)."""
from vx.extract import Unit
from . import common

NAME = 'mask_parser'
MF = 'harper-core/src/mask/mod.rs'
PF = 'harper-core/src/parsers/mask.rs'

MASK_MOD_OPEN = '''
// the two structs are both called `Mask` in /repo (crate::mask::Mask, crate::parsers::Mask); the first one lives in
// a sub-module here, as it does there
pub mod mask {
use super::*;
'''
MASK_SPEC = '''
// allowed spans are well formed, in increasing order, pairwise disjoint and inside a text of n characters
pub open spec fn spans_ok(a: Seq<Span>, n: int) -> bool {
    &&& forall|i: int| 0 <= i < a.len() ==> (#[trigger] a[i]).start <= a[i].end && a[i].end <= n
    &&& forall|i: int, j: int| 0 <= i < j < a.len() ==> (#[trigger] a[i]).end <= (#[trigger] a[j]).start
}
impl Mask {
    pub closed spec fn sp_allowed(&self) -> Seq<Span> { self.allowed@ }
    // ASSUMED (one-line iterator adapter in /repo: `self.allowed.iter().map(|s| (*s, s.get_content(source)))`):
    // yields the allowed spans in order, each with the characters it covers; get_content panics outside the text,
    // hence the precondition
    #[verifier::external_body]
    pub fn iter_allowed<'a>(&'a self, source: &'a [char]) -> (r: AllowedIter<'a>)
        requires spans_ok(self.sp_allowed(), source@.len() as int),
        ensures r.mask == self, r.source == source, r.pos == 0,
    { unimplemented!() }
}
pub struct AllowedIter<'a> { pub mask: &'a Mask, pub source: &'a [char], pub pos: usize }
impl<'a> AllowedIter<'a> {
    #[verifier::external_body]
    pub fn next(&mut self) -> (r: Option<(Span, &'a [char])>)
        requires old(self).pos <= old(self).mask.sp_allowed().len(),
        ensures final(self).mask == old(self).mask, final(self).source == old(self).source,
            r matches Some(p) ==> old(self).pos < old(self).mask.sp_allowed().len() && final(self).pos == old(self).pos + 1
                && p.0 == old(self).mask.sp_allowed()[old(self).pos as int]
                && p.1@ == old(self).source@.subrange(p.0.start as int, p.0.end as int),
            r is None ==> final(self).pos == old(self).pos && old(self).pos == old(self).mask.sp_allowed().len(),
    { unimplemented!() }
}
'''
MASK_MOD_CLOSE = '''
} // mod mask
use mask::Masker;
'''

SPEC = '''
// what every front-end owes the rest of Harper (C02): tokens inside the text, each well formed, in increasing
// non-overlapping order
pub open spec fn toks_ok(t: Seq<Token>, n: int) -> bool { toks_in(t, n) && ordered(t) }
// every token ends at or before character b
pub open spec fn toks_before(t: Seq<Token>, b: int) -> bool { forall|i: int| 0 <= i < t.len() ==> (#[trigger] t[i]).span.end <= b }
// token t is a structural break, or lies inside one of the allowed spans (nothing masked out is offered as text)
pub open spec fn in_allowed(a: Seq<Span>, t: Token) -> bool {
    t.kind is ParagraphBreak || exists|i: int| 0 <= i < a.len() && (#[trigger] a[i]).start <= t.span.start && t.span.end <= a[i].end
}
pub open spec fn all_in_allowed(a: Seq<Span>, t: Seq<Token>) -> bool { forall|k: int| 0 <= k < t.len() ==> in_allowed(a, #[trigger] t[k]) }
pub proof fn lemma_in_allowed_append(a: Seq<Span>, i: int, t: Seq<Token>, nt: Seq<Token>)
    requires all_in_allowed(a, t), 0 <= i < a.len(),
             forall|j: int| 0 <= j < nt.len() ==> a[i].start <= (#[trigger] nt[j]).span.start && nt[j].span.end <= a[i].end,
    ensures all_in_allowed(a, t + nt),
{
    let r = t + nt;
    assert forall|k: int| 0 <= k < r.len() implies in_allowed(a, #[trigger] r[k]) by {
        if k < t.len() { assert(r[k] == t[k]); assert(in_allowed(a, t[k])); } else { assert(r[k] == nt[k - t.len()]); assert(a[i].start <= r[k].span.start && r[k].span.end <= a[i].end); }
    }
}
pub proof fn lemma_in_allowed_push_break(a: Seq<Span>, t: Seq<Token>, b: Token)
    requires all_in_allowed(a, t), b.kind is ParagraphBreak,
    ensures all_in_allowed(a, t.push(b)),
{
    let r = t.push(b);
    assert forall|k: int| 0 <= k < r.len() implies in_allowed(a, #[trigger] r[k]) by {
        if k < t.len() { assert(r[k] == t[k]); assert(in_allowed(a, t[k])); }
    }
}
// token t moved `by` characters to the right
pub open spec fn shift_tok(t: Token, by: int) -> Token { Token { span: Span { start: (t.span.start + by) as usize, end: (t.span.end + by) as usize }, kind: t.kind } }
pub open spec fn shift_all(t: Seq<Token>, by: int) -> Seq<Token> { Seq::new(t.len(), |i: int| shift_tok(t[i], by)) }
// the output contains, as one contiguous block, exactly the tokens the inner parser returns for chunk k, each moved
// to the chunk's place in the file ("each word at its true offset")
pub open spec fn has_block(out: Seq<Token>, blk: Seq<Token>) -> bool { exists|o: int| 0 <= o && o + blk.len() <= out.len() && #[trigger] out.subrange(o, o + blk.len()) == blk }
pub proof fn lemma_block_stays(out: Seq<Token>, more: Seq<Token>, blk: Seq<Token>)
    requires has_block(out, blk),
    ensures has_block(out + more, blk),
{
    let o = choose|o: int| 0 <= o && o + blk.len() <= out.len() && #[trigger] out.subrange(o, o + blk.len()) == blk;
    assert((out + more).subrange(o, o + blk.len()) =~= out.subrange(o, o + blk.len()));
}
pub proof fn lemma_block_new(out: Seq<Token>, blk: Seq<Token>)
    ensures has_block(out + blk, blk),
{
    let o = out.len() as int;
    assert((out + blk).subrange(o, o + blk.len()) =~= blk);
}
pub open spec fn chunk_block<P: Parser>(p: &P, source: Seq<char>, a: Seq<Span>, k: int) -> Seq<Token> {
    shift_all(p.sp_parse(source.subrange(a[k].start as int, a[k].end as int)), a[k].start as int)
}
pub open spec fn blocks_upto<P: Parser>(p: &P, source: Seq<char>, a: Seq<Span>, out: Seq<Token>, n: int) -> bool {
    forall|k: int| 0 <= k < n ==> has_block(out, #[trigger] chunk_block(p, source, a, k))
}
// where the output so far ends: the end of the last allowed span that was handled
pub open spec fn done_upto(a: Seq<Span>, pos: int) -> int { if pos <= 0 { 0 } else { a[pos - 1].end as int } }

pub proof fn lemma_append_shifted(t: Seq<Token>, nt: Seq<Token>, n: int, lo: int, hi: int)
    requires toks_ok(t, n), toks_before(t, lo), lo <= hi <= n,
             forall|j: int| 0 <= j < nt.len() ==> lo <= (#[trigger] nt[j]).span.start <= nt[j].span.end <= hi,
             forall|i: int, j: int| 0 <= i < j < nt.len() ==> (#[trigger] nt[i]).span.end <= (#[trigger] nt[j]).span.start,
    ensures toks_ok(t + nt, n), toks_before(t + nt, hi),
{
    let r = t + nt;
    assert forall|i: int| 0 <= i < r.len() implies span_in(#[trigger] r[i].span, n) && r[i].span.end <= hi by {
        if i < t.len() { assert(r[i] == t[i]); assert(span_in(t[i].span, n)); } else { assert(r[i] == nt[i - t.len()]); }
    }
    assert forall|i: int, j: int| 0 <= i < j < r.len() implies #[trigger] r[i].span.end <= #[trigger] r[j].span.start by {
        if j < t.len() { assert(r[i] == t[i] && r[j] == t[j]); }
        else if i < t.len() { assert(r[i] == t[i] && r[j] == nt[j - t.len()]); }
        else { assert(r[i] == nt[i - t.len()] && r[j] == nt[j - t.len()]); }
    }
}
pub proof fn lemma_push_break(t: Seq<Token>, b: Token, n: int, lo: int)
    requires toks_ok(t, n), toks_before(t, lo), lo <= b.span.start <= b.span.end <= n,
    ensures toks_ok(t.push(b), n), toks_before(t.push(b), b.span.end as int),
{
    let r = t.push(b);
    assert forall|i: int| 0 <= i < r.len() implies span_in(#[trigger] r[i].span, n) && r[i].span.end <= b.span.end by {
        if i < t.len() { assert(r[i] == t[i]); assert(span_in(t[i].span, n)); }
    }
    assert forall|i: int, j: int| 0 <= i < j < r.len() implies #[trigger] r[i].span.end <= #[trigger] r[j].span.start by {
        assert(r[i] == t[i]);
        if j < t.len() { assert(r[j] == t[j]); }
    }
}
'''

PARSE = dict(
    result='r', props=['C01', 'C02', 'C04'],
    ensures=['toks_ok(r@, source@.len() as int)',
             # every token that is not a structural break lies inside a span the masker allowed
             'all_in_allowed(self.masker.sp_mask(source@), r@)',
             # for every allowed chunk, the inner parser's tokens for that chunk appear as one block, each at chunk start + its offset
             'self.parser.sp_det() ==> blocks_upto(&self.parser, source@, self.masker.sp_mask(source@), r@, self.masker.sp_mask(source@).len() as int)'],
    loops={
        1: dict(desugar='R5',
                invariant=[
                    '__it.mask == &mask', '__it.source == source', '__it.pos <= mask.sp_allowed().len()',
                    'mask::spans_ok(mask.sp_allowed(), source@.len() as int)',
                    'toks_ok(tokens@, source@.len() as int)', 'mask.sp_allowed() == self.masker.sp_mask(source@)', 'all_in_allowed(mask.sp_allowed(), tokens@)',
                    'self.parser.sp_det() ==> blocks_upto(&self.parser, source@, mask.sp_allowed(), tokens@, __it.pos as int)',
                    'toks_before(tokens@, done_upto(mask.sp_allowed(), __it.pos as int))',
                    'last_allowed matches Some(l) ==> __it.pos > 0 && l == mask.sp_allowed()[__it.pos - 1]',
                    'last_allowed is None ==> __it.pos == 0',
                ],
                ensures=['toks_ok(tokens@, source@.len() as int)', 'all_in_allowed(self.masker.sp_mask(source@), tokens@)', '__it.pos == mask.sp_allowed().len()',
                         'self.parser.sp_det() ==> blocks_upto(&self.parser, source@, self.masker.sp_mask(source@), tokens@, mask.sp_allowed().len() as int)'],
                decreases='mask.sp_allowed().len() - __it.pos'),
        2: dict(desugar='R8',
                invariant=[
                    '__i <= new_tokens@.len()', 'new_tokens@.len() == nt0.len()',
                    'span.start <= span.end <= source@.len()',
                    'toks_ok(nt0, span.end - span.start)',
                    'forall|j: int| __i <= j < new_tokens@.len() ==> new_tokens@[j] == nt0[j]',
                    'forall|j: int| 0 <= j < __i ==> (#[trigger] new_tokens@[j]).span.start == nt0[j].span.start + span.start && new_tokens@[j].span.end == nt0[j].span.end + span.start && new_tokens@[j].kind == nt0[j].kind',
                    'self.parser.sp_det() ==> nt0 == self.parser.sp_parse(content@)',
                ],
                decreases='new_tokens@.len() - __i'),
    },
    proofs=[
        dict(at='loop_body_start', loop=1, kind='ghost', text='let ghost th = tokens@;'),
        dict(before='let new_tokens', text='''

            assert(span == mask.sp_allowed()[__it.pos - 1]);
            assert(content@.len() == span.end - span.start);
            if self.parser.sp_det() {
                assert forall|k: int| 0 <= k < __it.pos - 1 implies has_block(tokens@, #[trigger] chunk_block(&self.parser, source@, mask.sp_allowed(), k)) by {
                    if tokens@.len() != th.len() {
                        assert(tokens@ =~= th + seq![tokens@[tokens@.len() - 1]]);
                        lemma_block_stays(th, seq![tokens@[tokens@.len() - 1]], chunk_block(&self.parser, source@, mask.sp_allowed(), k));
                    } else { assert(tokens@ =~= th); }
                }
            }
        '''),
        dict(after='let new_tokens', kind='ghost', text='let ghost nt0 = new_tokens@;'),
        dict(at='loop_body_start', loop=2, text='assert(span_in(nt0[__i - 1].span, span.end - span.start));'),
        dict(before='tokens.append', text='''
            assert forall|j: int| 0 <= j < new_tokens@.len() implies span.start <= (#[trigger] new_tokens@[j]).span.start <= new_tokens@[j].span.end <= span.end by {
                assert(span_in(nt0[j].span, span.end - span.start));
            }
            assert forall|i: int, j: int| 0 <= i < j < new_tokens@.len() implies (#[trigger] new_tokens@[i]).span.end <= (#[trigger] new_tokens@[j]).span.start by {
                assert(nt0[i].span.end <= nt0[j].span.start);
            }
            lemma_append_shifted(tokens@, new_tokens@, source@.len() as int, span.start as int, span.end as int);
            lemma_in_allowed_append(mask.sp_allowed(), __it.pos - 1, tokens@, new_tokens@);
            if self.parser.sp_det() {
            assert(new_tokens@ =~= shift_all(nt0, span.start as int));
            assert(content@ == source@.subrange(span.start as int, span.end as int));
            assert(new_tokens@ == chunk_block(&self.parser, source@, mask.sp_allowed(), __it.pos - 1));
            assert forall|k: int| 0 <= k < __it.pos implies has_block(tokens@ + new_tokens@, #[trigger] chunk_block(&self.parser, source@, mask.sp_allowed(), k)) by {
                if k < __it.pos - 1 { lemma_block_stays(tokens@, new_tokens@, chunk_block(&self.parser, source@, mask.sp_allowed(), k)); }
                else { lemma_block_new(tokens@, new_tokens@); }
            }
            }
        '''),
    ],
)


def build(repo):
    U = Unit(NAME, repo)
    U.header = common.HEADER
    common.add_span(U, [f for f in common.SPAN_FNS if f not in ()], props=('C01',))
    common.add_tokens(U)
    U.impl('harper-core/src/token.rs', 'impl Token', {'new': dict(result='r', props=['C01'], ensures=['r.span == span', 'r.kind == kind'])})
    U.raw("pub assume_specification<T: PartialEq> [<[T]>::contains] (s: &[T], x: &T) -> (b: bool);\n", name='trusted:contains')
    U.raw(MASK_MOD_OPEN, name='mod-open')
    U.item(MF, 'struct Mask', derive=())
    U.raw(MASK_SPEC, name='assumed:iter_allowed')
    U.trait(MF, 'trait Masker', {'create_mask': dict(result='r', ensures=['spans_ok(r.sp_allowed(), source@.len() as int)', 'r.sp_allowed() == self.sp_mask(source@)'],
                                                     note='what every Masker owes: a well-formed mask inside the text (Mask::push_allowed / merge_whitespace_sep keep it well formed: unit mask)')},
            extra_members='    // the allowed spans this masker computes for a text (specification-only name for the result of create_mask)\n    spec fn sp_mask(&self, source: Seq<char>) -> Seq<Span>;')
    U.raw(MASK_MOD_CLOSE, name='mod-close')
    U.raw(SPEC, name='spec:toks_ok')
    U.trait('harper-core/src/parsers/mod.rs', 'trait Parser', {'parse': dict(result='r', ensures=['toks_ok(r@, source@.len() as int)', 'self.sp_det() ==> r@ == self.sp_parse(source@)'],
                                                                             note='the front-end contract of C02; proved for PlainEnglish in unit lexing')},
            cfg_not='cfg(feature="concurrent")',
            extra_members='    // what this parser returns for a text (a parser is a function of its input; specification-only name)\n    spec fn sp_parse(&self, source: Seq<char>) -> Seq<Token>;\n    // whether sp_parse characterises this parser (true for the leaf parsers; the composition below does not define one)\n    spec fn sp_det(&self) -> bool;')
    U.item(PF, 'struct Mask', derive=())
    U.impl(PF, 'impl<M, P> Parser for Mask<M, P>', {'parse': PARSE},
           extra_members='    open spec fn sp_det(&self) -> bool { false }\n    open spec fn sp_parse(&self, source: Seq<char>) -> Seq<Token> { Seq::empty() }')
    U.raw(common.FOOTER)
    return U
