"""Unit `hex_number` (C01, C02): lex_hex_number - the scan terminates in bounds, and a hit consumes the `0x` prefix plus
hexadecimal digits only (1 <= next_index <= |source|), is a Number token of radix 16. The numeric value (u64::from_str_radix, `as f64`)
is not specified."""
from vx.extract import Unit
from . import common
from .lexing import VOCAB as LEX_VOCAB

NAME = 'hex_number'
L = 'harper-core/src/lexing/mod.rs'

STD = '''
// ---- trusted std ----
pub assume_specification [char::is_alphanumeric](c: char) -> (b: bool);
// char::is_ascii_hexdigit: '0'..='9' | 'a'..='f' | 'A'..='F' (its std definition)
pub open spec fn is_hex_digit(c: char) -> bool { ('0' <= c && c <= '9') || ('a' <= c && c <= 'f') || ('A' <= c && c <= 'F') }
pub assume_specification [char::is_ascii_hexdigit](c: &char) -> (b: bool)
    ensures b == is_hex_digit(*c);
// UTF-8: number of bytes that encode one char / a char string
pub open spec fn utf8_width(c: char) -> nat {
    if (c as u32) < 0x80 { 1 } else if (c as u32) < 0x800 { 2 } else if (c as u32) < 0x10000 { 3 } else { 4 }
}
pub open spec fn utf8_len(s: Seq<char>) -> nat
    decreases s.len()
{ if s.len() == 0 { 0 } else { utf8_len(s.drop_last()) + utf8_width(s.last()) } }
// String::len is the length in bytes of the UTF-8 encoding
pub assume_specification [String::len](s: &String) -> (n: usize)
    ensures n == utf8_len(s@);
// R20: String: FromIterator<&char> pushes the chars of the slice in order
#[verifier::external_body]
fn string_of_chars(e: &[char]) -> (s: String)
    ensures s@ == e@,
{ e.iter().collect() }
#[verifier::external_type_specification]
#[verifier::external_body]
pub struct ExParseIntError(core::num::ParseIntError);
// u64::from_str_radix is total for radix 16 (it panics only for a radix outside 2..=36); its value is not specified
pub assume_specification [u64::from_str_radix](s: &str, radix: u32) -> (r: Result<u64, core::num::ParseIntError>)
    requires 2 <= radix <= 36;
pub struct OrderedFloat<T>(pub T);
'''

LEMMAS = '''
// a string of hexadecimal digits is ASCII: one byte per char
pub proof fn lemma_hex_utf8_len(s: Seq<char>)
    requires forall|k: int| 0 <= k < s.len() ==> is_hex_digit(#[trigger] s[k]),
    ensures utf8_len(s) == s.len(),
    decreases s.len(),
{
    if s.len() > 0 {
        lemma_hex_utf8_len(s.drop_last());
        assert(is_hex_digit(s[s.len() - 1]));
    }
}
'''


def build(repo):
    U = Unit(NAME, repo)
    U.header = common.HEADER
    U.raw('#[verifier::external_body] pub struct WordMetadata { _p: u8 }\n#[verifier::external_body] pub struct Currency { _p: u8 }\n', name='opaque-types')
    U.raw(STD, name='trusted:string')
    U.item('harper-core/src/number.rs', 'enum NumberSuffix', derive=())
    U.item('harper-core/src/number.rs', 'struct Number', derive=())
    U.item('harper-core/src/punctuation.rs', 'struct Quote', derive=())
    U.item('harper-core/src/punctuation.rs', 'enum Punctuation', derive=())
    U.item('harper-core/src/token_kind.rs', 'enum TokenKind', derive=())
    U.item(L, 'struct FoundToken', derive=())
    U.raw(LEX_VOCAB.split('// plain-English tokens tile')[0], name='spec:found_ok')
    U.raw(LEMMAS, name='lemmas:hex', props=['C02'])
    P = ['C01', 'C02']
    U.fn(L, 'lex_hex_number', dict(
        result='r', props=P, collect_string=True,
        ensures=['found_ok(source@, r)',
                 'r matches Some(f) ==> (f.token matches TokenKind::Number(n) && n.radix == 16 && n.suffix is None && n.precision == 0)',
                 # the token covers `0x` and hexadecimal digits only (where it stops - maximal munch, at least one digit - is lexer policy, not part of the contract)
                 'r matches Some(f) ==> source@[0] == \'0\' && source@[1] == \'x\' && forall|k: int| 2 <= k < f.next_index ==> is_hex_digit(#[trigger] source@[k])'],
        loops={1: dict(invariant=['2 <= i <= len', 'len == source@.len()', 'forall|k: int| 2 <= k < i ==> is_hex_digit(#[trigger] source@[k])'],
                       decreases='len - i')},
        proofs=[dict(after='let s: String', kind='proof', text='lemma_hex_utf8_len(s@);')]))
    U.raw(common.FOOTER)
    return U
