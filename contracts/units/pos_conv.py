"""Unit `pos_conv` (C08): harper-ls/src/pos_conv.rs, the server-to-client direction. `index_to_position` and `span_to_range`
equal the reference "line = number of LF before i, column = UTF-16 units since the last LF" for EVERY text of fewer than 2^31
characters and every index inside it -- the unbounded counterpart of the Kani harnesses index_to_position_ref_N / span_to_range_ref_N.

The two iterator chains of index_to_position are desugared (R12: enumerate().filter_map().collect(); R13: map().sum()) into the
loops they denote; the closure bodies are verified where they stand."""
from vx.extract import Unit
from . import common

NAME = 'pos_conv'
F = 'harper-ls/src/pos_conv.rs'

PRELUDE = '''
// tower_lsp::lsp_types::{Position, Range}: external plain data types (same public fields)
pub struct Position { pub line: u32, pub character: u32 }
pub struct Range { pub start: Position, pub end: Position }
// ---- trusted std: char::len_utf16 is 1 below U+10000 and 2 from there on; Option::copied copies the referent ----
pub open spec fn len16(c: char) -> int { if (c as u32) < 0x10000 { 1 } else { 2 } }
pub assume_specification [char::len_utf16](c: char) -> (n: usize) ensures n == len16(c);
pub assume_specification<'a, T: Copy> [std::option::Option::<&T>::copied] (o: std::option::Option<&'a T>) -> (r: std::option::Option<T>)
    ensures r == (match o { Some(x) => Some(*x), None => None });
'''

SPEC = '''
// The reference, taken from the statement of C08 (LSP positions): scanning the text up to i, an LF starts a new line at column 0,
// any other character advances the column by its UTF-16 length.
pub open spec fn ref_pos(s: Seq<char>, i: int) -> (int, int)
    decreases i
{
    if i <= 0 { (0, 0) } else {
        let p = ref_pos(s, i - 1);
        if s[i - 1] == '\\n' { (p.0 + 1, 0) } else { (p.0, p.1 + len16(s[i - 1])) }
    }
}
// what the implementation computes on the way: the positions just after each LF among s[0..k), the start of the line of k,
// the UTF-16 length of s[a..b)
pub open spec fn nl_after(s: Seq<char>, k: int) -> Seq<usize>
    decreases k
{
    if k <= 0 { Seq::empty() } else if s[k - 1] == '\\n' { nl_after(s, k - 1).push(k as usize) } else { nl_after(s, k - 1) }
}
pub open spec fn line_start(s: Seq<char>, i: int) -> int
    decreases i
{
    if i <= 0 { 0 } else if s[i - 1] == '\\n' { i } else { line_start(s, i - 1) }
}
pub open spec fn u16sum(s: Seq<char>, a: int, b: int) -> int
    decreases b - a
{
    if b <= a { 0 } else { u16sum(s, a, b - 1) + len16(s[b - 1]) }
}
'''

LEMMAS = '''
pub proof fn lemma_nl_after(s: Seq<char>, k: int)
    requires 0 <= k <= s.len(), s.len() <= usize::MAX,
    ensures nl_after(s, k).len() == ref_pos(s, k).0,
            (if nl_after(s, k).len() == 0 { 0 } else { nl_after(s, k).last() as int }) == line_start(s, k),
            0 <= line_start(s, k) <= k,
            ref_pos(s, k).1 == u16sum(s, line_start(s, k), k),
            0 <= ref_pos(s, k).0 <= k, 0 <= ref_pos(s, k).1 <= 2 * k,
    decreases k
{
    if k > 0 {
        lemma_nl_after(s, k - 1);
        if s[k - 1] == '\\n' { } else { assert(line_start(s, k) == line_start(s, k - 1)); }
    }
}
// the reference only looks at the prefix it scans
pub proof fn lemma_prefix(s: Seq<char>, n: int, k: int)
    requires 0 <= k <= n <= s.len(),
    ensures ref_pos(s.subrange(0, n), k) == ref_pos(s, k), line_start(s.subrange(0, n), k) == line_start(s, k),
            nl_after(s.subrange(0, n), k) == nl_after(s, k),
            forall|a: int| 0 <= a <= k ==> u16sum(s.subrange(0, n), a, k) == u16sum(s, a, k),
    decreases k
{
    if k > 0 {
        lemma_prefix(s, n, k - 1);
        assert(s.subrange(0, n)[k - 1] == s[k - 1]);
        assert forall|a: int| 0 <= a <= k implies u16sum(s.subrange(0, n), a, k) == u16sum(s, a, k) by {
            if a < k { assert(u16sum(s.subrange(0, n), a, k - 1) == u16sum(s, a, k - 1)); }
        }
    }
}
// positions grow strictly with the index (lexicographically): two different indices never share a position, so a client that
// resolves the position against the same text lands on the same character
pub open spec fn lex_lt(a: (int, int), b: (int, int)) -> bool { a.0 < b.0 || (a.0 == b.0 && a.1 < b.1) }
pub proof fn lemma_ref_pos_strict(s: Seq<char>, i: int, j: int)
    requires 0 <= i < j <= s.len(),
    ensures lex_lt(ref_pos(s, i), ref_pos(s, j)),
    decreases j - i
{
    if i < j - 1 { lemma_ref_pos_strict(s, i, j - 1); }
}
// pins the reference itself on a concrete text: "a\\n\\u{1F600}b", index 4 is line 1, column 3 (the emoji counts two units)
pub proof fn witness_ref_pos()
    ensures ref_pos(seq!['a', '\\n', '\\u{1F600}', 'b'], 4) == (1int, 3int), ref_pos(seq!['a', '\\n', '\\u{1F600}', 'b'], 1) == (0int, 1int),
{
    let s = seq!['a', '\\n', '\\u{1F600}', 'b'];
    reveal_with_fuel(ref_pos, 6);
    assert(s[0] == 'a' && s[1] == '\\n' && s[2] == '\\u{1F600}' && s[3] == 'b');
    assert(len16('a') == 1 && len16('b') == 1 && len16('\\u{1F600}') == 2);
}
'''

BOUND = 'source@.len() <= 0x7fff_ffff'

INDEX_TO_POSITION = dict(
    result='r', props=['C08'],
    requires=['index <= source@.len()', BOUND],
    ensures=['r.line == ref_pos(source@, index as int).0', 'r.character == ref_pos(source@, index as int).1'],
    filter_map_collect=dict(invariant=['before@ == source@.subrange(0, index as int)', 'index <= source@.len()', BOUND,
                                       '__out@ == nl_after(before@, __k as int)']),
    map_sum=dict(invariant=['__sl@ == source@.subrange(last_newline_idx as int, index as int)', 'last_newline_idx <= index <= source@.len()', BOUND,
                            '__acc == u16sum(source@, last_newline_idx as int, last_newline_idx + __j)', '__acc <= 2 * __j']),
    proofs=[dict(before='let cols', text='lemma_nl_after(before@, index as int); lemma_prefix(source@, index as int, index as int);')],
)


def build(repo):
    U = Unit(NAME, repo)
    U.header = common.HEADER
    common.add_span(U, ['new'], props=('C08',))
    U.raw(PRELUDE, name='trusted:lsp-types-and-std')
    U.raw(SPEC, name='spec:ref_pos')
    U.raw(LEMMAS, name='lemmas:ref_pos', props=['C08'])
    U.fn(F, 'index_to_position', INDEX_TO_POSITION)
    U.fn(F, 'span_to_range', dict(result='r', props=['C08'],
                                  requires=['span.start <= source@.len()', 'span.end <= source@.len()', BOUND],
                                  ensures=['r.start.line == ref_pos(source@, span.start as int).0', 'r.start.character == ref_pos(source@, span.start as int).1',
                                           'r.end.line == ref_pos(source@, span.end as int).0', 'r.end.character == ref_pos(source@, span.end as int).1',
                                           # a non-empty span gives a non-empty, ordered range
                                           'span.start < span.end ==> (r.start.line < r.end.line || (r.start.line == r.end.line && r.start.character < r.end.character))',
                                           'span.start == span.end ==> r.start == r.end'],
                                  proofs=[dict(before='Range', text='if span.start < span.end { lemma_ref_pos_strict(source@, span.start as int, span.end as int); }')]))
    U.raw(common.FOOTER)
    return U
