"""Unit `pos_conv` (C08): harper-ls/src/pos_conv.rs, the server-to-client direction. `index_to_position` and `span_to_range`
equal the reference "line = number of LF before i, column = UTF-16 units since the last LF" for EVERY text of fewer than 2^31
characters and every index inside it -- the unbounded counterpart of the Kani harnesses index_to_position_ref_N / span_to_range_ref_N.

The two iterator chains of index_to_position are desugared (R12: enumerate().filter_map().collect(); R13: map().sum()) into the
loops they denote; the closure bodies are verified where they stand."""
from vx.extract import Unit
from . import common

NAME = 'pos_conv'
F = 'harper-ls/src/pos_conv.rs'

PRELUDE = '''
// tower_lsp::lsp_types::{Position, Range}: external plain data types (same public fields)
pub struct Position { pub line: u32, pub character: u32 }
pub struct Range { pub start: Position, pub end: Position }
// ---- trusted std: char::len_utf16 is 1 below U+10000 and 2 from there on; Option::copied copies the referent ----
pub open spec fn len16(c: char) -> int { if (c as u32) < 0x10000 { 1 } else { 2 } }
pub assume_specification [char::len_utf16](c: char) -> (n: usize) ensures n == len16(c);
pub assume_specification<'a, T: Copy> [std::option::Option::<&T>::copied] (o: std::option::Option<&'a T>) -> (r: std::option::Option<T>)
    ensures r == (match o { Some(x) => Some(*x), None => None });
'''

SPEC = '''
// The reference, taken from the statement of C08 (LSP positions): scanning the text up to i, an LF starts a new line at column 0,
// any other character advances the column by its UTF-16 length.
pub open spec fn ref_pos(s: Seq<char>, i: int) -> (int, int)
    decreases i
{
    if i <= 0 { (0, 0) } else {
        let p = ref_pos(s, i - 1);
        if s[i - 1] == '\\n' { (p.0 + 1, 0) } else { (p.0, p.1 + len16(s[i - 1])) }
    }
}
// what the implementation computes on the way: the positions just after each LF among s[0..k), the start of the line of k,
// the UTF-16 length of s[a..b)
pub open spec fn nl_after(s: Seq<char>, k: int) -> Seq<usize>
    decreases k
{
    if k <= 0 { Seq::empty() } else if s[k - 1] == '\\n' { nl_after(s, k - 1).push(k as usize) } else { nl_after(s, k - 1) }
}
pub open spec fn line_start(s: Seq<char>, i: int) -> int
    decreases i
{
    if i <= 0 { 0 } else if s[i - 1] == '\\n' { i } else { line_start(s, i - 1) }
}
pub open spec fn u16sum(s: Seq<char>, a: int, b: int) -> int
    decreases b - a
{
    if b <= a { 0 } else { u16sum(s, a, b - 1) + len16(s[b - 1]) }
}
'''

LEMMAS = '''
pub proof fn lemma_nl_after(s: Seq<char>, k: int)
    requires 0 <= k <= s.len(), s.len() <= usize::MAX,
    ensures nl_after(s, k).len() == ref_pos(s, k).0,
            (if nl_after(s, k).len() == 0 { 0 } else { nl_after(s, k).last() as int }) == line_start(s, k),
            0 <= line_start(s, k) <= k,
            ref_pos(s, k).1 == u16sum(s, line_start(s, k), k),
            0 <= ref_pos(s, k).0 <= k, 0 <= ref_pos(s, k).1 <= 2 * k,
    decreases k
{
    if k > 0 {
        lemma_nl_after(s, k - 1);
        if s[k - 1] == '\\n' { } else { assert(line_start(s, k) == line_start(s, k - 1)); }
    }
}
// the reference only looks at the prefix it scans
pub proof fn lemma_prefix(s: Seq<char>, n: int, k: int)
    requires 0 <= k <= n <= s.len(),
    ensures ref_pos(s.subrange(0, n), k) == ref_pos(s, k), line_start(s.subrange(0, n), k) == line_start(s, k),
            nl_after(s.subrange(0, n), k) == nl_after(s, k),
            forall|a: int| 0 <= a <= k ==> u16sum(s.subrange(0, n), a, k) == u16sum(s, a, k),
    decreases k
{
    if k > 0 {
        lemma_prefix(s, n, k - 1);
        assert(s.subrange(0, n)[k - 1] == s[k - 1]);
        assert forall|a: int| 0 <= a <= k implies u16sum(s.subrange(0, n), a, k) == u16sum(s, a, k) by {
            if a < k { assert(u16sum(s.subrange(0, n), a, k - 1) == u16sum(s, a, k - 1)); }
        }
    }
}
// positions grow strictly with the index (lexicographically): two different indices never share a position, so a client that
// resolves the position against the same text lands on the same character
pub open spec fn lex_lt(a: (int, int), b: (int, int)) -> bool { a.0 < b.0 || (a.0 == b.0 && a.1 < b.1) }
pub proof fn lemma_ref_pos_strict(s: Seq<char>, i: int, j: int)
    requires 0 <= i < j <= s.len(),
    ensures lex_lt(ref_pos(s, i), ref_pos(s, j)),
    decreases j - i
{
    if i < j - 1 { lemma_ref_pos_strict(s, i, j - 1); }
}
// pins the reference itself on a concrete text: "a\\n\\u{1F600}b", index 4 is line 1, column 3 (the emoji counts two units)
pub proof fn witness_ref_pos()
    ensures ref_pos(seq!['a', '\\n', '\\u{1F600}', 'b'], 4) == (1int, 3int), ref_pos(seq!['a', '\\n', '\\u{1F600}', 'b'], 1) == (0int, 1int),
{
    let s = seq!['a', '\\n', '\\u{1F600}', 'b'];
    reveal_with_fuel(ref_pos, 6);
    assert(s[0] == 'a' && s[1] == '\\n' && s[2] == '\\u{1F600}' && s[3] == 'b');
    assert(len16('a') == 1 && len16('b') == 1 && len16('\\u{1F600}') == 2);
}
'''

RT_LEMMAS = '''
pub open spec fn first_lf_from(s: Seq<char>, i: int) -> int
    decreases s.len() - i
{
    if i < 0 || i >= s.len() { s.len() as int } else if s[i] == '\\n' { i } else { first_lf_from(s, i + 1) }
}
pub open spec fn has_lf_from(s: Seq<char>, i: int) -> bool { first_lf_from(s, i) < s.len() }

pub proof fn lemma_first_lf(s: Seq<char>, i: int)
    requires 0 <= i <= s.len(),
    ensures i <= first_lf_from(s, i) <= s.len(),
            forall|k: int| i <= k < first_lf_from(s, i) ==> s[k] != '\\n',
            first_lf_from(s, i) < s.len() ==> s[first_lf_from(s, i)] == '\\n',
    decreases s.len() - i
{
    if i < s.len() && s[i] != '\\n' { lemma_first_lf(s, i + 1); }
}
// no LF in [a, b): the list of LF positions does not change, neither does the line start
pub proof fn lemma_no_lf_between(s: Seq<char>, a: int, b: int)
    requires 0 <= a <= b <= s.len(), forall|k: int| a <= k < b ==> s[k] != '\\n',
    ensures nl_after(s, b) == nl_after(s, a), line_start(s, b) == line_start(s, a), ref_pos(s, b).0 == ref_pos(s, a).0,
    decreases b - a
{
    if a < b { lemma_no_lf_between(s, a, b - 1); }
}
// nl_after(s, k) is a prefix of nl_after(s, n), k <= n; elements increasing, in (0, k]
pub proof fn lemma_nl_prefix(s: Seq<char>, k: int, n: int)
    requires 0 <= k <= n <= s.len(), s.len() <= usize::MAX,
    ensures nl_after(s, k).len() <= nl_after(s, n).len(),
            nl_after(s, k) == nl_after(s, n).subrange(0, nl_after(s, k).len() as int),
            forall|t: int| 0 <= t < nl_after(s, n).len() ==> 0 < #[trigger] nl_after(s, n)[t] <= n,
            forall|t: int| nl_after(s, k).len() <= t < nl_after(s, n).len() ==> k < #[trigger] nl_after(s, n)[t],
    decreases n - k
{
    lemma_nl_bounds(s, n);
    if k < n {
        lemma_nl_prefix(s, k, n - 1);
        lemma_nl_bounds(s, n - 1);
        if s[n - 1] == '\\n' {
            assert(nl_after(s, n) == nl_after(s, n - 1).push(n as usize));
            assert(nl_after(s, k) =~= nl_after(s, n).subrange(0, nl_after(s, k).len() as int));
        }
    } else {
        assert(nl_after(s, k) =~= nl_after(s, n).subrange(0, nl_after(s, k).len() as int));
    }
}
pub proof fn lemma_nl_bounds(s: Seq<char>, n: int)
    requires 0 <= n <= s.len(), s.len() <= usize::MAX,
    ensures forall|t: int| 0 <= t < nl_after(s, n).len() ==> 0 < #[trigger] nl_after(s, n)[t] <= n,
            nl_after(s, n).len() <= n,
    decreases n
{
    if n > 0 { lemma_nl_bounds(s, n - 1); }
}
pub proof fn lemma_u16sum_split(s: Seq<char>, a: int, m: int, b: int)
    requires a <= m <= b,
    ensures u16sum(s, a, b) == u16sum(s, a, m) + u16sum(s, m, b), u16sum(s, m, b) >= b - m,
    decreases b - m
{
    if m < b { lemma_u16sum_split(s, a, m, b - 1); }
}

// the facts about the index i whose position is asked for, given the list the take-loop produced
pub proof fn lemma_roundtrip_lines(s: Seq<char>, i: int, out: Seq<usize>, k: int, take: int)
    requires 0 <= i <= s.len(), s.len() <= 0x7fff_ffff, 0 <= k <= s.len(), out == nl_after(s, k), out.len() <= take,
             take == ref_pos(s, i).0 + 1, k == s.len() || out.len() == take,
             has_lf_from(s, i) || !has_lf_from(s, 0),
    ensures ({
        let line_end = if out.len() > 0 { out.last() as int } else { s.len() as int };
        let rest = if out.len() > 0 { out.drop_last() } else { out };
        let ls = if rest.len() > 0 { rest.last() as int } else { 0 };
        &&& ls == line_start(s, i) && ls <= i <= line_end <= s.len()
        &&& (has_lf_from(s, i) ==> i < line_end)
        &&& (!has_lf_from(s, 0) ==> line_end == s.len() && ls == 0)
    }),
{
    let n = s.len() as int;
    lemma_nl_after(s, i);
    lemma_first_lf(s, i);
    lemma_first_lf(s, 0);
    let L = ref_pos(s, i).0;
    if has_lf_from(s, i) {
        let j = first_lf_from(s, i);
        lemma_no_lf_between(s, i, j);
        assert(nl_after(s, j + 1) == nl_after(s, i).push((j + 1) as usize));
        assert(nl_after(s, j + 1).len() == L + 1);
        lemma_nl_prefix(s, j + 1, n);
        lemma_nl_prefix(s, k, n);
        // out has exactly L + 1 entries: if the loop ran to the end it saw the LF at j
        if out.len() < take { assert(k == n); assert(nl_after(s, j + 1).len() <= nl_after(s, n).len()); }
        assert(out.len() == L + 1);
        assert(out =~= nl_after(s, j + 1)) by {
            assert(out == nl_after(s, n).subrange(0, L + 1));
            assert(nl_after(s, j + 1) == nl_after(s, n).subrange(0, L + 1));
        }
        assert(out.last() == (j + 1) as usize);
        assert(out.drop_last() =~= nl_after(s, i));
    } else {
        // no LF at all
        lemma_no_lf_between(s, 0, n);
        lemma_no_lf_between(s, 0, k);
        lemma_no_lf_between(s, 0, i);
        assert(nl_after(s, 0) =~= Seq::<usize>::empty());
        assert(out.len() == 0);
    }
}

pub proof fn lemma_nl_incr(s: Seq<char>, n: int)
    requires 0 <= n <= s.len(), s.len() <= usize::MAX,
    ensures forall|a: int, b: int| 0 <= a < b < nl_after(s, n).len() ==> nl_after(s, n)[a] < nl_after(s, n)[b],
    decreases n
{
    if n > 0 { lemma_nl_incr(s, n - 1); lemma_nl_bounds(s, n - 1); }
}
pub open spec fn ends_of(s: Seq<char>, out: Seq<usize>) -> (int, int) {
    let line_end = if out.len() > 0 { out.last() as int } else { s.len() as int };
    let rest = if out.len() > 0 { out.drop_last() } else { out };
    let ls = if rest.len() > 0 { rest.last() as int } else { 0 };
    (ls, line_end)
}
// the loop stopped at m because the columns match: every candidate index i is m
pub proof fn lemma_roundtrip_unique(s: Seq<char>, out: Seq<usize>, k: int, line: int, col: int, ls: int, le: int, m: int)
    requires s.len() <= 0x7fff_ffff, 0 <= k <= s.len(), out == nl_after(s, k), out.len() <= line + 1, k == s.len() || out.len() == line + 1,
             ends_of(s, out) == (ls, le), ls <= m < le, u16sum(s, ls, m) == col,
             forall|x: int| ls <= x < m ==> u16sum(s, ls, x) != col,
    ensures forall|i: int| 0 <= i <= s.len() && ref_pos(s, i) == (line, col) && (has_lf_from(s, i) || !has_lf_from(s, 0)) ==> m == i,
{
    assert forall|i: int| 0 <= i <= s.len() && ref_pos(s, i) == (line, col) && (has_lf_from(s, i) || !has_lf_from(s, 0)) implies m == i by {
        lemma_roundtrip_lines(s, i, out, k, line + 1);
        lemma_nl_after(s, i);
        // u16sum(ls, i) == col == u16sum(ls, m); strictly increasing
        if i < m { } else if i > m { lemma_u16sum_split(s, ls, m, i); }
    }
}
// the loop ran over the whole line without a hit
pub proof fn lemma_roundtrip_end(s: Seq<char>, out: Seq<usize>, k: int, line: int, col: int, ls: int, le: int, total: int)
    requires s.len() <= 0x7fff_ffff, 0 <= k <= s.len(), out == nl_after(s, k), out.len() <= line + 1, k == s.len() || out.len() == line + 1,
             ends_of(s, out) == (ls, le), ls <= le, total == u16sum(s, ls, le),
             forall|x: int| ls <= x < le ==> u16sum(s, ls, x) != col,
    ensures forall|i: int| 0 <= i <= s.len() && ref_pos(s, i) == (line, col) && (has_lf_from(s, i) || !has_lf_from(s, 0)) ==> (if total > 0 { le } else { ls }) == i,
{
    assert forall|i: int| 0 <= i <= s.len() && ref_pos(s, i) == (line, col) && (has_lf_from(s, i) || !has_lf_from(s, 0)) implies (if total > 0 { le } else { ls }) == i by {
        lemma_roundtrip_lines(s, i, out, k, line + 1);
        lemma_nl_after(s, i);
        // i in [ls, le]; i < le is excluded by the no-hit fact, so i == le
        if total == 0 { lemma_u16sum_split(s, ls, ls, le); }
    }
}

'''

BOUND = 'source@.len() <= 0x7fff_ffff'

INDEX_TO_POSITION = dict(
    result='r', props=['C08'],
    requires=['index <= source@.len()', BOUND],
    ensures=['r.line == ref_pos(source@, index as int).0', 'r.character == ref_pos(source@, index as int).1'],
    filter_map_collect=dict(invariant=['before@ == source@.subrange(0, index as int)', 'index <= source@.len()', BOUND,
                                       '__out@ == nl_after(before@, __k as int)']),
    map_sum=dict(invariant=['__sl@ == source@.subrange(last_newline_idx as int, index as int)', 'last_newline_idx <= index <= source@.len()', BOUND,
                            '__acc == u16sum(source@, last_newline_idx as int, last_newline_idx + __j)', '__acc <= 2 * __j']),
    proofs=[dict(before='let cols', text='lemma_nl_after(before@, index as int); lemma_prefix(source@, index as int, index as int);')],
)


RT_COND = "(has_lf_from(source@, {i}) || !has_lf_from(source@, 0))"
KFACTS = ['0 <= k0 <= source@.len()', 'out0 == nl_after(source@, k0)', 'out0.len() <= position.line + 1', 'k0 == source@.len() || out0.len() == position.line + 1',
          'ends_of(source@, out0) == (line_start_idx as int, line_end_idx as int)']
LARGS = 'source@, out0, k0, position.line as int, position.character as int, line_start_idx as int, line_end_idx as int'
POSITION_TO_INDEX = dict(
    result='r', props=['C08'],
    requires=[BOUND, 'position.line <= 0x7fff_ffff'],
    ensures=['r <= source@.len()',
             # the round trip: whatever index i has this position -- on a line that ends in LF, or in a text without LF (the
             # final line of a text that contains LF is the known finding D4) -- is the index returned
             'forall|i: int| 0 <= i <= source@.len() && ref_pos(source@, i) == (position.line as int, position.character as int) && '
             + RT_COND.format(i='i') + ' ==> r == i'],
    filter_map_collect=dict(invariant=[BOUND, '__out@ == nl_after(source@, __k as int)']),
    loops={1: dict(desugar='R1', invariant=['__k <= line_end_idx - line_start_idx', 'line_start_idx <= line_end_idx <= source@.len()', BOUND] + KFACTS + [
                       'traversed_cols == u16sum(source@, line_start_idx as int, line_start_idx + __k)', 'traversed_cols <= 2 * __k',
                       'forall|m: int| line_start_idx <= m < line_start_idx + __k ==> u16sum(source@, line_start_idx as int, m) != position.character as int'],
                   decreases='line_end_idx - line_start_idx - __k')},
    proofs=[dict(before='let line_end_idx', kind='ghost', text='let ghost out0 = newline_indices@;'),
            dict(before='let line_end_idx', kind='ghost', text='let ghost k0: int = choose|k: int| 0 <= k <= source@.len() && out0 == nl_after(source@, k) && (k == source@.len() || out0.len() == position.line as int + 1);'),
            dict(before='let line_end_idx', text='lemma_nl_bounds(source@, k0);'),
            dict(before='let mut traversed_cols', text='if out0.len() >= 2 { assert(out0[out0.len() - 2] < out0[out0.len() - 1]) by { lemma_nl_incr(source@, k0); } }'),
            dict(before='return line_start_idx', text='lemma_roundtrip_unique(' + LARGS + ', line_start_idx + traversed_chars);'),
            dict(before='return line_end_idx', text='lemma_roundtrip_end(' + LARGS + ', traversed_cols as int);'),
            dict(before='line_start_idx', text='lemma_roundtrip_end(' + LARGS + ', traversed_cols as int);')],
)

# a range that is the image of a span [a, b] (both ends round-trippable) comes back as exactly that span
RANGE_PRE = ('0 <= a <= b <= source@.len() && ref_pos(source@, a) == (range.start.line as int, range.start.character as int) && ref_pos(source@, b) == (range.end.line as int, range.end.character as int) && '
             + RT_COND.format(i='a') + ' && ' + RT_COND.format(i='b'))
RANGE_TO_SPAN = dict(
    result='r', props=['C08'],
    requires=[BOUND, 'range.start.line <= 0x7fff_ffff', 'range.end.line <= 0x7fff_ffff', 'exists|a: int, b: int| ' + RANGE_PRE],
    ensures=['forall|a: int, b: int| ' + RANGE_PRE + ' ==> r.start == a && r.end == b'],
)


def build(repo):
    U = Unit(NAME, repo)
    U.header = common.HEADER
    common.add_span(U, ['new'], props=('C08',))
    U.raw(PRELUDE, name='trusted:lsp-types-and-std')
    U.raw(SPEC, name='spec:ref_pos')
    U.raw(LEMMAS, name='lemmas:ref_pos', props=['C08'])
    U.raw(RT_LEMMAS, name='lemmas:roundtrip', props=['C08'])
    U.fn(F, 'index_to_position', INDEX_TO_POSITION)
    U.fn(F, 'span_to_range', dict(result='r', props=['C08'],
                                  requires=['span.start <= source@.len()', 'span.end <= source@.len()', BOUND],
                                  ensures=['r.start.line == ref_pos(source@, span.start as int).0', 'r.start.character == ref_pos(source@, span.start as int).1',
                                           'r.end.line == ref_pos(source@, span.end as int).0', 'r.end.character == ref_pos(source@, span.end as int).1',
                                           # a non-empty span gives a non-empty, ordered range
                                           'span.start < span.end ==> (r.start.line < r.end.line || (r.start.line == r.end.line && r.start.character < r.end.character))',
                                           'span.start == span.end ==> r.start == r.end'],
                                  proofs=[dict(before='Range', text='if span.start < span.end { lemma_ref_pos_strict(source@, span.start as int, span.end as int); }')]))
    U.fn(F, 'position_to_index', POSITION_TO_INDEX)
    U.fn(F, 'range_to_span', RANGE_TO_SPAN)
    U.raw(common.FOOTER)
    return U
