"""Unit `merged_dictionary` (C15): a merged dictionary behaves as the union of its parts for the
char-slice queries (membership, exact membership) and lets the first child that knows a word decide
its canonical spelling and metadata."""
from vx.extract import Unit
from . import common

NAME = 'merged_dictionary'
D = 'harper-core/src/spell/dictionary.rs'
M = 'harper-core/src/spell/merged_dictionary.rs'

TRAIT_SPEC = '''
    // abstract view of one dictionary: what it answers for a query
    spec fn sp_contains(&self, w: Seq<char>) -> bool;
    spec fn sp_contains_exact(&self, w: Seq<char>) -> bool;
    spec fn sp_capitalization(&self, w: Seq<char>) -> Option<Seq<char>>;
    spec fn sp_has_metadata(&self, w: Seq<char>) -> bool;
'''

IMPL_SPEC = '''
    // C15: "a merged dictionary behaves as the union of its parts"
    closed spec fn sp_contains(&self, w: Seq<char>) -> bool {
        exists|i: int| 0 <= i < self.children@.len() && (#[trigger] self.children@[i]).sp_contains(w)
    }
    closed spec fn sp_contains_exact(&self, w: Seq<char>) -> bool {
        exists|i: int| 0 <= i < self.children@.len() && (#[trigger] self.children@[i]).sp_contains_exact(w)
    }
    // "first child that knows the word wins"
    closed spec fn sp_capitalization(&self, w: Seq<char>) -> Option<Seq<char>> {
        first_cap(self.children@, w, 0)
    }
    closed spec fn sp_has_metadata(&self, w: Seq<char>) -> bool {
        exists|i: int| 0 <= i < self.children@.len() && (#[trigger] self.children@[i]).sp_has_metadata(w)
    }
'''

SPEC = '''
pub open spec fn first_cap(c: Seq<Arc<dyn Dictionary>>, w: Seq<char>, from: int) -> Option<Seq<char>>
    decreases c.len() - from
{
    if from < 0 || from >= c.len() { None }
    else if c[from].sp_capitalization(w).is_some() { c[from].sp_capitalization(w) }
    else { first_cap(c, w, from + 1) }
}
pub proof fn lemma_first_cap_skip(c: Seq<Arc<dyn Dictionary>>, w: Seq<char>, k: int)
    requires 0 <= k <= c.len(), forall|i: int| 0 <= i < k ==> (#[trigger] c[i]).sp_capitalization(w).is_none(),
    ensures first_cap(c, w, 0) == first_cap(c, w, k),
    decreases k,
{
    if k > 0 {
        lemma_first_cap_skip(c, w, k - 1);
        assert(c[k - 1].sp_capitalization(w).is_none());
    }
}
'''


def build(repo):
    U = Unit(NAME, repo)
    U.header = common.HEADER.replace('verus! {\nbroadcast use', 'use std::sync::Arc;\nverus! {\nbroadcast use')
    U.raw('#[verifier::external_body] pub struct WordMetadata { _p: u8 }\n#[verifier::external_body] pub struct FixedState { _p: u8 }', name='opaque-types')
    U.trait(D, 'trait Dictionary', {
        'contains_word': dict(result='r', ensures=['r == self.sp_contains(word@)']),
        'contains_exact_word': dict(result='r', ensures=['r == self.sp_contains_exact(word@)']),
        'get_correct_capitalization_of': dict(result='r', ensures=['r.is_some() == self.sp_capitalization(word@).is_some()',
                                                                   'r.is_some() ==> r.unwrap()@ == self.sp_capitalization(word@).unwrap()']),
        'get_word_metadata': dict(result='r', ensures=['r.is_some() == self.sp_has_metadata(word@)']),
    }, extra_members=TRAIT_SPEC)
    U.item(M, 'struct MergedDictionary', derive=())
    U.raw(SPEC, name='lemmas:first_cap', props=['C15'])
    def none_yet(f, neg='!'):
        return dict(iter_name='it', invariant=[f'forall|i: int| 0 <= i < it.index@ ==> {neg}(#[trigger] self.children@[i]).{f}'])
    U.impl(M, 'impl Dictionary for MergedDictionary', {
        'get_correct_capitalization_of': dict(result='r', props=['C15'],
            loops={1: dict(iter_name='it', invariant=['query == word@', 'forall|i: int| 0 <= i < it.index@ ==> (#[trigger] self.children@[i]).sp_capitalization(word@).is_none()'])},
            proofs=[dict(at='body_start', kind='ghost', text='let ghost query = word@;'),
                    dict(before='return Some(word);', text='lemma_first_cap_skip(self.children@, query, it.index@ as int);'),
                    dict(before='None', text='lemma_first_cap_skip(self.children@, word@, self.children@.len() as int);')]),
        'contains_word': dict(result='r', props=['C15'], loops={1: none_yet('sp_contains(word@)')}),
        'contains_exact_word': dict(result='r', props=['C15'], loops={1: none_yet('sp_contains_exact(word@)')}),
        'get_word_metadata': dict(result='r', props=['C15'], loops={1: none_yet('sp_has_metadata(word@)')}),
    }, extra_members=IMPL_SPEC)
    U.raw(common.FOOTER)
    return U
