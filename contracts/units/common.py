"""Shared unit fragments: file header/footer, Span under contract, trusted std specs."""

HEADER = '''#![feature(allocator_api)]
#![allow(unused_imports, unused_variables, dead_code, unused_mut, unused_parens, non_snake_case)]
use vstd::prelude::*;
use vstd::std_specs::iter::IteratorSpec;
use std::alloc::Allocator;
use std::collections::VecDeque;
mod axioms {
use vstd::prelude::*;
verus! {
// ---- trusted: a Rust slice never has more than usize::MAX elements (its length is a usize) ----
#[verifier::external_body]
pub broadcast proof fn axiom_slice_len_bound<T>(s: &[T])
    ensures #[trigger] s@.len() <= usize::MAX {}
}
}
verus! {
broadcast use axioms::axiom_slice_len_bound;
'''
FOOTER = '''
} // verus!
fn main() {}
'''

SPAN_VOCAB = '''
pub open spec fn span_in(s: Span, n: int) -> bool { s.start <= s.end && s.end <= n }
'''

# Every Span method that any unit uses, with the contract derived from its body and call sites.
SPAN_FNS = {
    'new': dict(result='r', requires=['start <= end'], ensures=['r.start == start', 'r.end == end'],
                note='the panic! branch becomes a caller obligation'),
    'new_with_len': dict(result='r', requires=['start + len <= usize::MAX'],
                         ensures=['r.start == start', 'r.end == start + len']),
    'len': dict(result='r', requires=['self.start <= self.end'], ensures=['r == self.end - self.start']),
    'is_empty': dict(result='r', requires=['self.start <= self.end'], ensures=['r == (self.start == self.end)']),
    'contains': dict(result='r', requires=['self.start <= self.end'], ensures=['r == (self.start <= idx && idx < self.end)']),
    'overlaps_with': dict(result='r', ensures=['r == (self.start < other.end && other.start < self.end)']),
    'try_get_content': dict(
        result='r',
        requires=['self.start <= self.end'],
        ensures=['r.is_some() <==> ((self.end <= source@.len() && self.start < source@.len()) || self.start == self.end)',
                 'r.is_some() && self.end <= source@.len() && self.start < source@.len() ==> r.unwrap()@ == source@.subrange(self.start as int, self.end as int)',
                 'r.is_some() && !(self.end <= source@.len() && self.start < source@.len()) ==> r.unwrap()@.len() == 0'],
        note='requires start<=end because is_empty() subtracts'),
    'get_content': dict(
        result='r',
        requires=['self.start <= self.end', '(self.end <= source@.len() && self.start < source@.len()) || self.start == self.end'],
        ensures=['self.start < self.end ==> r@ == source@.subrange(self.start as int, self.end as int)',
                 'self.start == self.end ==> r@.len() == 0']),
    'set_len': dict(requires=['old(self).start + length <= usize::MAX'],
                    ensures=['final(self).start == old(self).start', 'final(self).end == old(self).start + length']),
    'with_len': dict(result='r', requires=['self.start + length <= usize::MAX'],
                     ensures=['r.start == self.start', 'r.end == self.start + length']),
    'push_by': dict(requires=['old(self).start + by <= usize::MAX', 'old(self).end + by <= usize::MAX'],
                    ensures=['final(self).start == old(self).start + by', 'final(self).end == old(self).end + by']),
    'pull_by': dict(requires=['by <= old(self).start', 'by <= old(self).end'],
                    ensures=['final(self).start == old(self).start - by', 'final(self).end == old(self).end - by']),
    'pushed_by': dict(result='r', requires=['self.start + by <= usize::MAX', 'self.end + by <= usize::MAX'],
                      ensures=['r.start == self.start + by', 'r.end == self.end + by']),
    'pulled_by': dict(result='r', requires=['self.start <= self.end'],
                      ensures=['r.is_none() <==> by > self.start',
                               'r.is_some() ==> r.unwrap().start == self.start - by && r.unwrap().end == self.end - by']),
    'with_offset': dict(result='r', requires=['self.start + by <= usize::MAX', 'self.end + by <= usize::MAX'],
                        ensures=['r.start == self.start + by', 'r.end == self.end + by']),
}

SPAN_FILE = 'harper-core/src/span.rs'


def add_span(U, fns, props=('C01',)):
    U.item(SPAN_FILE, 'struct Span', derive=('Debug', 'Clone', 'Copy', 'PartialEq', 'Eq'))
    U.raw(SPAN_VOCAB + (CHARSTRING_STUB if 'get_content' in fns else ''), name='stubs:span')
    sel = {}
    for f in fns:
        spec = dict(SPAN_FNS[f])
        spec['props'] = list(props)
        sel[f] = spec
    U.impl(SPAN_FILE, 'impl Span', sel)


EXTEND_SPECS = '''
// ---- trusted: Vec::extend appends the elements the iterator yields (std documentation) ----
pub uninterp spec fn ext_seq<I: IntoIterator>(i: I) -> Seq<I::Item>;

pub assume_specification<T, A: Allocator, I: IntoIterator<Item = T>> [<Vec<T, A> as Extend<T>>::extend] (v: &mut Vec<T, A>, iter: I)
    ensures final(v)@ == old(v)@ + ext_seq(iter);

pub assume_specification<'a, T: Copy + 'a, A: Allocator, I: IntoIterator<Item = &'a T>> [<Vec<T, A> as Extend<&'a T>>::extend] (v: &mut Vec<T, A>, iter: I)
    ensures final(v)@ == old(v)@ + ext_seq(iter).map_values(|x: &T| *x);

#[verifier::external_body]
pub broadcast proof fn ext_seq_vec<T>(v: Vec<T>)
    ensures #[trigger] ext_seq(v) == v@ {}
#[verifier::external_body]
pub broadcast proof fn ext_seq_vec_ref<'a, T>(v: &'a Vec<T>)
    ensures (#[trigger] ext_seq(v)).map_values(|x: &T| *x) == v@ {}
#[verifier::external_body]
pub broadcast proof fn ext_seq_skip<T>(v: core::iter::Skip<std::vec::IntoIter<T>>)
    ensures #[trigger] ext_seq(v) == v.remaining() {}
'''


# ---- tokens ---------------------------------------------------------------------------------
# Types whose definitions are irrelevant to the proved clauses are opaque. TokenKind, Token,
# Punctuation, Quote are copied verbatim from /repo.
OPAQUE_TYPES = '''
// ---- opaque stand-ins for data types that play no role in any proved clause ----
#[verifier::external_body] pub struct WordMetadata { _p: u8 }
#[verifier::external_body] pub struct Currency { _p: u8 }
'''
OPAQUE_NUMBER = '''
#[verifier::external_body] pub struct Number { _p: u8 }
'''

TOKEN_VOCAB = '''
pub open spec fn toks_in(t: Seq<Token>, n: int) -> bool {
    forall|i: int| 0 <= i < t.len() ==> span_in(#[trigger] t[i].span, n)
}
pub open spec fn ordered(t: Seq<Token>) -> bool {
    forall|i: int, j: int| 0 <= i < j < t.len() ==> #[trigger] t[i].span.end <= #[trigger] t[j].span.start
}
pub proof fn lemma_toks_in_sub(t: Seq<Token>, n: int, a: int, b: int)
    requires toks_in(t, n), 0 <= a <= b <= t.len(),
    ensures toks_in(t.subrange(a, b), n),
{
    assert forall|i: int| 0 <= i < b - a implies span_in(#[trigger] t.subrange(a, b)[i].span, n) by {
        assert(t.subrange(a, b)[i] == t[a + i]);
    }
}
'''


def kind_pred_stubs(names):
    """derive(Is)/hand-written TokenKind predicates that the unit calls but does not reason about:
    declared external_body with NO postcondition (an arbitrary total bool function)."""
    body = ''.join(f'    #[verifier::external_body] pub fn is_{n}(&self) -> bool {{ unimplemented!() }}\n' for n in names)
    return 'impl TokenKind {\n' + body + '}\n'


def add_tokens(U, number_opaque=True, derive=()):
    U.raw(OPAQUE_TYPES + (OPAQUE_NUMBER if number_opaque else ''), name='opaque-types')
    U.item('harper-core/src/punctuation.rs', 'struct Quote', derive=derive)
    U.item('harper-core/src/punctuation.rs', 'enum Punctuation', derive=derive)
    U.item('harper-core/src/token_kind.rs', 'enum TokenKind', derive=derive)
    U.item('harper-core/src/token.rs', 'struct Token', derive=derive)
    U.raw(TOKEN_VOCAB, name='lemmas:tokens')

# `Span::get_content` formats its panic message with CharStringExt::to_string; the branch is proved
# unreachable, the stub only has to type-check.
CHARSTRING_STUB = '''
pub trait CharStringExt { fn to_string(&self) -> String; fn to_lower(&self) -> Vec<char>; }
impl CharStringExt for [char] {
    #[verifier::external_body] fn to_string(&self) -> String { unimplemented!() }
    #[verifier::external_body] fn to_lower(&self) -> Vec<char> { unimplemented!() }
}
'''


# ---- VecExt::remove_indices under contract -----------------------------------------------------
# Verus forbids `requires` on an impl method, so the contract sits on the trait through two spec
# members that the Vec<T> impl defines. The body (Vec::retain with a stateful closure) is verified in
# unit `vec_ext` through desugaring R9; the callers' units see the contract only.
VECEXT_VOCAB = '''
pub open spec fn incr(s: Seq<usize>) -> bool { forall|a: int, b: int| 0 <= a < b < s.len() ==> s[a] < s[b] }
pub open spec fn incr_int(s: Seq<int>) -> bool { forall|a: int, b: int| 0 <= a < b < s.len() ==> s[a] < s[b] }

/// `kept` lists, in increasing order, exactly the positions of `s` not named in `idx`, and `r` is `s` at those positions.
pub open spec fn removed_by<T>(s: Seq<T>, idx: Seq<usize>, r: Seq<T>, kept: Seq<int>) -> bool {
    &&& incr_int(kept) && kept.len() == r.len()
    &&& forall|k: int| 0 <= k < kept.len() ==> 0 <= #[trigger] kept[k] < s.len() && !idx.contains(kept[k] as usize) && r[k] == s[kept[k]]
    &&& forall|i: int| 0 <= i < s.len() && !idx.contains(i as usize) ==> #[trigger] kept.contains(i)
}
/// `r` is `s` with exactly the positions in `idx` deleted (order and values preserved).
pub open spec fn removed<T>(s: Seq<T>, idx: Seq<usize>, r: Seq<T>) -> bool {
    exists|kept: Seq<int>| removed_by(s, idx, r, kept)
}
// membership of a position in an index list, without casts
pub open spec fn in_rm(rm: Seq<usize>, i: int) -> bool { exists|k: int| 0 <= k < rm.len() && #[trigger] rm[k] as int == i }
// the elements of s[0..f) whose position is not listed in rm, in order
pub open spec fn keepseq<T>(s: Seq<T>, rm: Seq<usize>, f: int) -> Seq<T>
    decreases f
{
    if f <= 0 { Seq::empty() } else {
        let p = keepseq(s, rm, f - 1);
        if in_rm(rm, f - 1) { p } else { p.push(s[f - 1]) }
    }
}
pub proof fn lemma_push_contains(s: Seq<usize>, v: usize)
    ensures forall|x: usize| #[trigger] s.push(v).contains(x) <==> (s.contains(x) || x == v),
{
    assert forall|x: usize| #[trigger] s.push(v).contains(x) <==> (s.contains(x) || x == v) by {
        if s.contains(x) { let k = choose|k: int| 0 <= k < s.len() && s[k] == x; assert(s.push(v)[k] == x); }
        if x == v { assert(s.push(v)[s.len() as int] == x); }
        if s.push(v).contains(x) {
            let k = choose|k: int| 0 <= k < s.push(v).len() && s.push(v)[k] == x;
            if k < s.len() { assert(s[k] == x); }
        }
    }
}
pub proof fn lemma_removed_nothing<T>(s: Seq<T>)
    ensures removed(s, Seq::<usize>::empty(), s),
{
    let kept = Seq::new(s.len(), |k: int| k);
    assert forall|i: int| 0 <= i < s.len() implies #[trigger] kept.contains(i) by { assert(kept[i] == i); }
    assert(removed_by(s, Seq::<usize>::empty(), s, kept));
}
'''
VECEXT_TRAIT_MEMBERS = '''
    spec fn ri_pre(&self, idx: Seq<usize>) -> bool;
    spec fn ri_post(old_self: &Self, idx: Seq<usize>, new_self: &Self) -> bool;
'''
VECEXT_IMPL_MEMBERS = '''
    open spec fn ri_pre(&self, idx: Seq<usize>) -> bool { incr(idx) && forall|k: int| 0 <= k < idx.len() ==> idx[k] < self@.len() }
    open spec fn ri_post(old_self: &Self, idx: Seq<usize>, new_self: &Self) -> bool { removed(old_self@, idx, new_self@) && new_self@ == keepseq(old_self@, idx, old_self@.len() as int) }
'''
REMOVE_INDICES = dict(requires=['old(self).ri_pre(to_remove@)'], ensures=['Self::ri_post(old(self), to_remove@, final(self))'])


def add_vecext(U, props):
    """the callers' view of VecExt::remove_indices: contract only (modular verification). The body is verified against
    this very contract (REMOVE_INDICES + VECEXT_IMPL_MEMBERS, shared text) in unit `vec_ext`, which every property that
    uses a caller's unit also runs."""
    U.raw(VECEXT_VOCAB, name='spec:removed')
    U.trait('harper-core/src/vec_ext.rs', 'trait VecExt', {'remove_indices': dict(REMOVE_INDICES)},
            extra_members=VECEXT_TRAIT_MEMBERS, supertrait=': Sized')
    U.impl('harper-core/src/vec_ext.rs', 'impl<T> VecExt for Vec<T>',
           {'remove_indices': dict(external_body=True, props=list(props), proved_in='vec_ext',
                                   assumed='removed(old(self)@, to_remove@, final(self)@) and, equivalently, final(self)@ == keepseq(old(self)@, to_remove@, len): the vector with exactly the listed positions deleted, given strictly increasing in-range indices',
                                   note='callee contract; body verified in unit vec_ext (desugaring R9 of Vec::retain)')},
           extra_members=VECEXT_IMPL_MEMBERS)


POSITION_SPEC = '''
// slice::Iter::position: a hit is an index into what was left of the iterator
pub assume_specification<'a, T, P: FnMut(&'a T) -> bool> [<core::slice::Iter<'a, T> as Iterator>::position] (it: &mut core::slice::Iter<'a, T>, pred: P) -> (r: Option<usize>)
    where core::slice::Iter<'a, T>: Sized
    ensures match r { Some(i) => i < old(it).remaining().len(), None => true };
'''
