"""Shared unit fragments: file header/footer, Span under contract, trusted std specs."""

HEADER = '''#![feature(allocator_api)]
#![allow(unused_imports, unused_variables, dead_code, unused_mut, unused_parens, non_snake_case)]
use vstd::prelude::*;
use vstd::std_specs::iter::IteratorSpec;
use std::alloc::Allocator;
use std::collections::VecDeque;
verus! {
'''
FOOTER = '''
} // verus!
fn main() {}
'''

SPAN_VOCAB = '''
pub open spec fn span_in(s: Span, n: int) -> bool { s.start <= s.end && s.end <= n }
'''

# Every Span method that any unit uses, with the contract derived from its body and call sites.
SPAN_FNS = {
    'new': dict(result='r', requires=['start <= end'], ensures=['r.start == start', 'r.end == end'],
                note='the panic! branch becomes a caller obligation'),
    'new_with_len': dict(result='r', requires=['start + len <= usize::MAX'],
                         ensures=['r.start == start', 'r.end == start + len']),
    'len': dict(result='r', requires=['self.start <= self.end'], ensures=['r == self.end - self.start']),
    'is_empty': dict(result='r', requires=['self.start <= self.end'], ensures=['r == (self.start == self.end)']),
    'contains': dict(result='r', requires=['self.start <= self.end'], ensures=['r == (self.start <= idx && idx < self.end)']),
    'overlaps_with': dict(result='r', ensures=['r == (self.start < other.end && other.start < self.end)']),
    'try_get_content': dict(
        result='r',
        requires=['self.start <= self.end'],
        ensures=['r.is_some() <==> ((self.end <= source@.len() && self.start < source@.len()) || self.start == self.end)',
                 'r.is_some() && self.end <= source@.len() && self.start < source@.len() ==> r.unwrap()@ == source@.subrange(self.start as int, self.end as int)',
                 'r.is_some() && !(self.end <= source@.len() && self.start < source@.len()) ==> r.unwrap()@.len() == 0'],
        note='requires start<=end because is_empty() subtracts'),
    'get_content': dict(
        result='r',
        requires=['self.start <= self.end', '(self.end <= source@.len() && self.start < source@.len()) || self.start == self.end'],
        ensures=['self.start < self.end ==> r@ == source@.subrange(self.start as int, self.end as int)',
                 'self.start == self.end ==> r@.len() == 0']),
    'set_len': dict(requires=['old(self).start + length <= usize::MAX'],
                    ensures=['final(self).start == old(self).start', 'final(self).end == old(self).start + length']),
    'with_len': dict(result='r', requires=['self.start + length <= usize::MAX'],
                     ensures=['r.start == self.start', 'r.end == self.start + length']),
    'push_by': dict(requires=['old(self).start + by <= usize::MAX', 'old(self).end + by <= usize::MAX'],
                    ensures=['final(self).start == old(self).start + by', 'final(self).end == old(self).end + by']),
    'pull_by': dict(requires=['by <= old(self).start', 'by <= old(self).end'],
                    ensures=['final(self).start == old(self).start - by', 'final(self).end == old(self).end - by']),
    'pushed_by': dict(result='r', requires=['self.start + by <= usize::MAX', 'self.end + by <= usize::MAX'],
                      ensures=['r.start == self.start + by', 'r.end == self.end + by']),
    'pulled_by': dict(result='r', requires=['self.start <= self.end'],
                      ensures=['r.is_none() <==> by > self.start',
                               'r.is_some() ==> r.unwrap().start == self.start - by && r.unwrap().end == self.end - by']),
    'with_offset': dict(result='r', requires=['self.start + by <= usize::MAX', 'self.end + by <= usize::MAX'],
                        ensures=['r.start == self.start + by', 'r.end == self.end + by']),
}

SPAN_FILE = 'harper-core/src/span.rs'


def add_span(U, fns, props=('C01',)):
    U.item(SPAN_FILE, 'struct Span')
    U.raw(SPAN_VOCAB)
    sel = {}
    for f in fns:
        spec = dict(SPAN_FNS[f])
        spec['props'] = list(props)
        sel[f] = spec
    U.impl(SPAN_FILE, 'impl Span', sel)


EXTEND_SPECS = '''
// ---- trusted: Vec::extend appends the elements the iterator yields (std documentation) ----
pub uninterp spec fn ext_seq<I: IntoIterator>(i: I) -> Seq<I::Item>;

pub assume_specification<T, A: Allocator, I: IntoIterator<Item = T>> [<Vec<T, A> as Extend<T>>::extend] (v: &mut Vec<T, A>, iter: I)
    ensures final(v)@ == old(v)@ + ext_seq(iter);

pub assume_specification<'a, T: Copy + 'a, A: Allocator, I: IntoIterator<Item = &'a T>> [<Vec<T, A> as Extend<&'a T>>::extend] (v: &mut Vec<T, A>, iter: I)
    ensures final(v)@ == old(v)@ + ext_seq(iter).map_values(|x: &T| *x);

#[verifier::external_body]
pub broadcast proof fn ext_seq_vec<T>(v: Vec<T>)
    ensures #[trigger] ext_seq(v) == v@ {}
#[verifier::external_body]
pub broadcast proof fn ext_seq_vec_ref<'a, T>(v: &'a Vec<T>)
    ensures (#[trigger] ext_seq(v)).map_values(|x: &T| *x) == v@ {}
#[verifier::external_body]
pub broadcast proof fn ext_seq_skip<T>(v: core::iter::Skip<std::vec::IntoIter<T>>)
    ensures #[trigger] ext_seq(v) == v.remaining() {}
'''
