"""Unit `overlaps32`: the `overlaps` unit re-verified for a 32-bit usize (the wasm32 target of harper-wasm);
`!0 - end` in the sort key is the only place where the width of usize matters."""
from . import overlaps

NAME = 'overlaps32'


def build(repo):
    U = overlaps.build(repo)
    U.name = NAME
    # rustc's post-verification const check of `global size_of usize == 4` cannot hold on the 64-bit host that runs the
    # verifier; the SMT encoding (what is being checked here) uses the declared size.
    U.ignore_errors = ('does not have the expected size',)
    for pc in U.pieces:
        if 'global size_of usize == 8;' in pc.text:
            pc.text = pc.text.replace('global size_of usize == 8;', 'global size_of usize == 4;')
        if '0xffff_ffff_ffff_ffffusize' in pc.text:
            pc.text = pc.text.replace('0xffff_ffff_ffff_ffffusize', '0xffff_ffffusize')
    return U
