"""Unit `edit_distance` (C15, C01): edit_distance_min_alloc returns the true Levenshtein distance
(recursive spec function) for all strings up to 254 chars, without overflow or out-of-bounds."""
from vx.extract import Unit
from . import common

NAME = 'edit_distance'
F = 'harper-core/src/edit_distance.rs'

ITER_AXIOM = '''
#[verifier::external_body]
pub broadcast proof fn ext_seq_iter<I: Iterator>(i: I)
    ensures #[trigger] ext_seq(i) == i.remaining() {}
'''

SPEC = '''
pub open spec fn min3(a: nat, b: nat, c: nat) -> nat { if a <= b { if a <= c { a } else { c } } else { if b <= c { b } else { c } } }

// The Levenshtein distance, as a mathematical function (the property's own notion of "true distance").
pub open spec fn lev(a: Seq<char>, b: Seq<char>) -> nat
    decreases a.len() + b.len()
{
    if a.len() == 0 { b.len() }
    else if b.len() == 0 { a.len() }
    else {
        min3(lev(a.drop_last(), b) + 1, lev(a, b.drop_last()) + 1,
             lev(a.drop_last(), b.drop_last()) + (if a.last() == b.last() { 0nat } else { 1nat }))
    }
}

pub proof fn lev_bound(a: Seq<char>, b: Seq<char>)
    ensures lev(a, b) <= (if a.len() >= b.len() { a.len() } else { b.len() })
    decreases a.len() + b.len()
{
    if a.len() == 0 || b.len() == 0 { } else {
        lev_bound(a.drop_last(), b); lev_bound(a, b.drop_last()); lev_bound(a.drop_last(), b.drop_last());
    }
}

pub proof fn lev_step(a: Seq<char>, b: Seq<char>, i: int, j: int)
    requires 1 <= i <= a.len(), 1 <= j <= b.len()
    ensures lev(a.take(i), b.take(j)) == min3(lev(a.take(i - 1), b.take(j)) + 1, lev(a.take(i), b.take(j - 1)) + 1,
                lev(a.take(i - 1), b.take(j - 1)) + (if a[i - 1] == b[j - 1] { 0nat } else { 1nat }))
{
    assert(a.take(i).drop_last() =~= a.take(i - 1));
    assert(b.take(j).drop_last() =~= b.take(j - 1));
    assert(a.take(i).last() == a[i - 1]);
    assert(b.take(j).last() == b[j - 1]);
}

pub proof fn lev_empty(a: Seq<char>, b: Seq<char>, i: int, j: int)
    requires 0 <= i <= a.len(), 0 <= j <= b.len()
    ensures lev(a.take(0), b.take(j)) == j, lev(a.take(i), b.take(0)) == i
{
    assert(a.take(0).len() == 0); assert(b.take(0).len() == 0);
    assert(b.take(j).len() == j); assert(a.take(i).len() == i);
}

// sanity of the spec itself: identity of indiscernibles (one direction) and symmetry
pub proof fn lev_same(a: Seq<char>)
    ensures lev(a, a) == 0
    decreases a.len()
{
    if a.len() > 0 { lev_same(a.drop_last()); }
}
pub proof fn lev_sym(a: Seq<char>, b: Seq<char>)
    ensures lev(a, b) == lev(b, a)
    decreases a.len() + b.len()
{
    if a.len() == 0 || b.len() == 0 { } else {
        lev_sym(a.drop_last(), b); lev_sym(a, b.drop_last()); lev_sym(a.drop_last(), b.drop_last());
    }
}
'''

COMMON_INV = ['row_width == source@.len()', 'col_height == target@.len()', 'row_width <= 254', 'col_height <= 254',
              'previous_row@.len() == row_width + 1', 'current_row@.len() == row_width + 1',
              'forall|k: int| 0 <= k <= row_width ==> previous_row@[k] as nat == lev(source@.take(k), target@.take(j - 1))']

MIN_ALLOC = dict(
    result='d', props=['C15', 'C01'],
    requires=['source@.len() <= 254', 'target@.len() <= 254'],
    ensures=['d as nat == lev(source@, target@)'],
    loops={
        1: dict(invariant=COMMON_INV),
        2: dict(invariant=['1 <= j <= col_height'] + COMMON_INV +
                ['forall|k: int| 0 <= k < i ==> current_row@[k] as nat == lev(source@.take(k), target@.take(j as int))']),
    },
    proofs=[
        dict(before='for j in', text='broadcast use ext_seq_iter; assert forall|k: int| 0 <= k <= row_width implies previous_row@[k] as nat == lev(source@.take(k), target@.take(0)) by { lev_empty(source@, target@, k, 0); }'),
        dict(before='for i in', text='lev_empty(source@, target@, 0, j as int);'),
        dict(before='current_row[i] =', text='lev_step(source@, target@, i as int, j as int); lev_bound(source@.take(i as int), target@.take(j - 1)); lev_bound(source@.take(i - 1), target@.take(j as int)); lev_bound(source@.take(i - 1), target@.take(j - 1));'),
        dict(before='previous_row[row_width]', text='assert(source@.take(row_width as int) =~= source@); assert(target@.take(col_height as int) =~= target@);'),
    ],
)


def build(repo):
    U = Unit(NAME, repo)
    U.header = common.HEADER
    U.raw(common.EXTEND_SPECS + ITER_AXIOM, name='trusted:extend')
    U.raw(SPEC, name='lemmas:lev', props=['C15'])
    U.fn(F, 'edit_distance_min_alloc', MIN_ALLOC)
    U.fn(F, 'edit_distance', dict(result='d', props=['C15', 'C01'], requires=['source@.len() <= 254', 'target@.len() <= 254'],
                                  ensures=['d as nat == lev(source@, target@)']))
    U.raw(common.FOOTER)
    return U
