"""Unit `vec_ext` (C13, C02, C01): the body of VecExt::remove_indices against the contract every other unit assumes.

`Vec::retain` with a stateful closure is rejected by this Verus; desugaring R9 replaces the call by the documented
behaviour of retain (one call of the closure body per element, in order; afterwards exactly the elements whose call
returned true remain, in order).  The closure body itself is verified untouched."""
from vx.extract import Unit
from . import common

NAME = 'vec_ext'
F = 'harper-core/src/vec_ext.rs'

RETAIN = '''
// ---- trusted std stand-in (R9): what Vec::retain leaves behind once the closure has been called on every element,
// in order, and has answered flags[j] for element j ("visits each element exactly once in the original order, and
// preserves the order of the retained elements" -- std documentation) ----
pub open spec fn kept_by_flags<T>(s: Seq<T>, flags: Seq<bool>, f: int) -> Seq<T>
    decreases f
{
    if f <= 0 { Seq::empty() } else {
        let p = kept_by_flags(s, flags, f - 1);
        if flags[f - 1] { p.push(s[f - 1]) } else { p }
    }
}
#[verifier::external_body]
pub fn vec_retain_flags<T>(v: &mut Vec<T>, flags: &Vec<bool>)
    requires flags@.len() == old(v)@.len(),
    ensures final(v)@ == kept_by_flags(old(v)@, flags@, old(v)@.len() as int),
{ unimplemented!() }
'''

LEMMAS = '''
pub proof fn lemma_flags_keepseq<T>(s: Seq<T>, flags: Seq<bool>, rm: Seq<usize>, f: int)
    requires 0 <= f <= s.len(), flags.len() >= f, forall|j: int| 0 <= j < f ==> flags[j] == !(#[trigger] in_rm(rm, j)),
    ensures kept_by_flags(s, flags, f) == keepseq(s, rm, f),
    decreases f,
{
    if f > 0 { lemma_flags_keepseq(s, flags, rm, f - 1); }
}
// the positions that keepseq keeps, in order
pub open spec fn keptpos(rm: Seq<usize>, f: int) -> Seq<int>
    decreases f
{
    if f <= 0 { Seq::empty() } else {
        let p = keptpos(rm, f - 1);
        if in_rm(rm, f - 1) { p } else { p.push(f - 1) }
    }
}
pub proof fn lemma_in_rm_contains(rm: Seq<usize>, i: int)
    requires 0 <= i <= usize::MAX,
    ensures in_rm(rm, i) <==> rm.contains(i as usize),
{
    if in_rm(rm, i) { let k = choose|k: int| 0 <= k < rm.len() && #[trigger] rm[k] as int == i; assert(rm[k] == i as usize); }
    if rm.contains(i as usize) { let k = choose|k: int| 0 <= k < rm.len() && rm[k] == i as usize; assert(rm[k] as int == i); }
}
pub proof fn lemma_keptpos<T>(s: Seq<T>, rm: Seq<usize>, f: int)
    requires 0 <= f <= s.len(), s.len() <= usize::MAX,
    ensures ({ let kp = keptpos(rm, f); let ks = keepseq(s, rm, f);
        &&& kp.len() == ks.len() && incr_int(kp)
        &&& forall|k: int| 0 <= k < kp.len() ==> 0 <= #[trigger] kp[k] < f && !rm.contains(kp[k] as usize) && ks[k] == s[kp[k]]
        &&& forall|i: int| 0 <= i < f && !rm.contains(i as usize) ==> #[trigger] kp.contains(i) }),
    decreases f,
{
    if f > 0 {
        lemma_keptpos(s, rm, f - 1);
        lemma_in_rm_contains(rm, f - 1);
        let p = keptpos(rm, f - 1); let kp = keptpos(rm, f);
        if in_rm(rm, f - 1) { } else {
            assert(kp == p.push(f - 1));
            assert forall|i: int| 0 <= i < f && !rm.contains(i as usize) implies #[trigger] kp.contains(i) by {
                if i == f - 1 { assert(kp[p.len() as int] == i); } else { assert(p.contains(i)); let k = choose|k: int| 0 <= k < p.len() && p[k] == i; assert(kp[k] == i); }
            }
        }
    }
}
// the two formulations of "exactly the listed positions are deleted" used by the callers' units agree
pub proof fn lemma_keepseq_removed<T>(s: Seq<T>, rm: Seq<usize>)
    requires s.len() <= usize::MAX,
    ensures removed(s, rm, keepseq(s, rm, s.len() as int)),
{
    lemma_keptpos(s, rm, s.len() as int);
    assert(removed_by(s, rm, keepseq(s, rm, s.len() as int), keptpos(rm, s.len() as int)));
}
// pins the spec function itself: deleting positions 1 and 3 of [a, b, c, d, e] leaves [a, c, e]
pub proof fn witness_keepseq()
    ensures keepseq(seq![10u8, 11u8, 12u8, 13u8, 14u8], seq![1usize, 3usize], 5) == seq![10u8, 12u8, 14u8],
{
    let s = seq![10u8, 11u8, 12u8, 13u8, 14u8]; let rm = seq![1usize, 3usize];
    assert(rm[0] as int == 1); assert(rm[1] as int == 3);
    assert(in_rm(rm, 1)); assert(in_rm(rm, 3));
    assert(!in_rm(rm, 0)); assert(!in_rm(rm, 2)); assert(!in_rm(rm, 4));
    reveal_with_fuel(keepseq, 6);
    assert(keepseq(s, rm, 5) =~= seq![10u8, 12u8, 14u8]);
}
'''

INV = [
    'self@ == old(self)@', 'i == __r', '__flags@.len() == __r', '__r <= self@.len()',
    'incr(idx)', 'forall|k: int| 0 <= k < idx.len() ==> idx[k] < self@.len()',
    '0 <= c <= idx.len()',
    # the closure's captured state: `next_remove` is the c-th requested index, `to_remove` holds the ones after it
    'next_remove == (if c < idx.len() { Some(idx[c]) } else { None::<usize> })',
    'to_remove@ == idx.subrange(if c + 1 <= idx.len() { c + 1 } else { idx.len() as int }, idx.len() as int)',
    'forall|k: int| 0 <= k < c ==> idx[k] < __r',
    'c < idx.len() ==> idx[c] >= __r',
    # what retain has been told so far: element j stays iff j is not a requested index
    'forall|j: int| 0 <= j < __r ==> __flags@[j] == !(#[trigger] in_rm(idx, j))',
]

BODY = dict(
    props=['C13', 'C02', 'C01'],
    retain=dict(
        invariant=INV, decreases='self@.len() - __r',
        end_proof='''
            if __b {
                assert(!in_rm(idx, (__r) as int)) by {
                    if in_rm(idx, __r as int) {
                        let k = choose|k: int| 0 <= k < idx.len() && #[trigger] idx[k] as int == __r as int;
                        if k < c { } else if k == c { } else { assert(idx[c] < idx[k]); }
                    }
                }
            } else {
                assert(idx[c - 1] as int == __r as int);
            }''',
        after_proof='lemma_flags_keepseq(self@, __flags@, idx, self@.len() as int); lemma_keepseq_removed(self@, idx);'),
    proofs=[
        dict(at='body_start', kind='ghost', text='let ghost idx = to_remove@;'),
        dict(at='body_start', kind='ghost', text='let ghost mut c: int = 0;'),
        dict(after='next_remove = to_remove', text='c = c + 1;'),
    ],
)


def build(repo):
    U = Unit(NAME, repo)
    U.header = common.HEADER
    U.raw(common.VECEXT_VOCAB, name='spec:removed')
    U.raw(RETAIN, name='trusted:retain')
    U.raw(LEMMAS, name='lemmas:keepseq', props=['C13', 'C02', 'C01'])
    U.trait(F, 'trait VecExt', {'remove_indices': dict(common.REMOVE_INDICES)},
            extra_members=common.VECEXT_TRAIT_MEMBERS, supertrait=': Sized')
    U.impl(F, 'impl<T> VecExt for Vec<T>', {'remove_indices': BODY}, extra_members=common.VECEXT_IMPL_MEMBERS)
    U.raw(common.FOOTER)
    return U
