"""Unit `span` (C01, C03): every Span method under contract; the panic in Span::new and the
subtractions become caller obligations."""
from vx.extract import Unit
from . import common

NAME = 'span'

LEMMAS = '''
// C03: the chunk cache pulls a lint span back by the chunk start and pushes it forward again
pub fn rebase_roundtrip(s: Span, k: usize) -> (r: Span)
    requires s.start <= s.end, k <= s.start,
    ensures r == s,
{
    let p = s.pulled_by(k);
    p.unwrap().pushed_by(k)
}
// vacuity guard: every precondition introduced above is satisfied by concrete arguments
pub fn witness_span_preconditions() {
    let s = Span::new(1, 3);
    let e = Span::new_with_len(2, 0);
    assert(s.start == 1 && s.end == 3 && e.start == e.end);
    let l = s.len(); let b = s.is_empty(); let c = s.contains(2); let o = s.overlaps_with(e);
    assert(l == 2 && !b && c && o);
    let mut t = s;
    t.set_len(5); t.push_by(4); t.pull_by(5);
    assert(t.start == 0 && t.end == 5);
    let w = s.with_len(1); let p = s.pushed_by(7); let q = s.pulled_by(1); let z = s.pulled_by(2); let off = s.with_offset(1);
    assert(w.end == 2 && p.start == 8 && q.is_some() && z.is_none() && off.end == 4);
}
'''


def build(repo):
    U = Unit(NAME, repo)
    U.header = common.HEADER
    common.add_span(U, list(common.SPAN_FNS), props=('C01', 'C03'))
    U.raw(LEMMAS, name='lemmas:span', props=['C01', 'C03'])
    U.raw(common.FOOTER)
    return U
