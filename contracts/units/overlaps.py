"""Unit `overlaps` (C13): remove_overlaps returns a conflict-free sub-list of a permutation of its input."""
from vx.extract import Unit
from . import common

NAME = 'overlaps'

SORT = '''
global size_of usize == 8;

// ---- trusted: <[T]>::sort_by_key yields a permutation sorted by the key the closure computes ----
pub uninterp spec fn spec_le<K>(a: K, b: K) -> bool;
#[verifier::external_body]
pub broadcast proof fn spec_le_pair(a: (usize, usize), b: (usize, usize))
    ensures #[trigger] spec_le(a, b) == (a.0 < b.0 || (a.0 == b.0 && a.1 <= b.1)) {}

pub uninterp spec fn sort_key<T, K>(x: T) -> K;
pub assume_specification<T, K: Ord, F: FnMut(&T) -> K> [<[T]>::sort_by_key] (s: &mut [T], f: F)
    requires forall|x: T, k: K| f.ensures((&x,), k) ==> k == sort_key::<T, K>(x),
    ensures final(s)@.to_multiset() == old(s)@.to_multiset(),
            forall|i: int, j: int| 0 <= i < j < final(s)@.len() ==> spec_le(#[trigger] sort_key::<T, K>(final(s)@[i]), #[trigger] sort_key::<T, K>(final(s)@[j]));
// the key this unit's closure is obliged (by its spliced `ensures`) to compute
#[verifier::external_body]
pub broadcast proof fn sort_key_def(l: Lint)
    ensures #[trigger] sort_key::<Lint, (usize, usize)>(l) == key_of(l) {}
'''

SPEC = '''
pub open spec fn overlaps(a: Span, b: Span) -> bool { a.start < b.end && b.start < a.end }
pub open spec fn all_wf(s: Seq<Lint>) -> bool { forall|i: int| 0 <= i < s.len() ==> (#[trigger] s[i]).span.start <= s[i].span.end }
pub open spec fn covers(sorted: Seq<Lint>, idx: Seq<usize>, bound: int, a: int, r: int) -> bool {
    0 <= a < bound && !idx.contains(a as usize) && sorted[a].span.start <= sorted[r].span.start < sorted[a].span.end
}
pub open spec fn dropped(idx: Seq<usize>, r: int) -> bool { idx.contains(r as usize) }
pub open spec fn key_of(l: Lint) -> (usize, usize) { (l.span.start, (usize::MAX - l.span.end) as usize) }
'''

LOOP_INV = [
    'lints@ == sorted', '__k <= sorted.len()', 'all_wf(sorted)',
    'forall|i: int, j: int| 0 <= i < j < sorted.len() ==> (#[trigger] sorted[i]).span.start <= (#[trigger] sorted[j]).span.start',
    'incr(remove_indices@)',
    'forall|k: int| 0 <= k < remove_indices@.len() ==> #[trigger] remove_indices@[k] < __k',
    '-1 <= last < __k',
    'last == -1 ==> cur == 0 && __k == 0',
    'last >= 0 ==> cur == sorted[last].span.end && !remove_indices@.contains(last as usize)',
    'forall|a: int| 0 <= a < __k && !remove_indices@.contains(a as usize) ==> (#[trigger] sorted[a]).span.end <= cur',
    'forall|a: int, b: int| 0 <= a < b < __k && !remove_indices@.contains(a as usize) && !remove_indices@.contains(b as usize) ==> (#[trigger] sorted[a]).span.end <= (#[trigger] sorted[b]).span.start',
    'forall|r: int| 0 <= r < __k && #[trigger] dropped(remove_indices@, r) ==> exists|a: int| covers(sorted, remove_indices@, __k as int, a, r)',
]

REMOVE_OVERLAPS = dict(
    props=['C13'],
    requires=['all_wf(old(lints)@)'],
    ensures=[
        # (b) no two survivors share a character
        'forall|i: int, j: int| 0 <= i < final(lints)@.len() && 0 <= j < final(lints)@.len() && i != j ==> !overlaps(final(lints)@[i].span, final(lints)@[j].span)',
        # (a) survivors are a sub-list of a permutation of the input, (c) every dropped lint starts inside a kept one
        'exists|sorted: Seq<Lint>, idx: Seq<usize>| sorted.to_multiset() == old(lints)@.to_multiset() && removed(sorted, idx, final(lints)@)'
        ' && (forall|r: int| 0 <= r < sorted.len() && #[trigger] dropped(idx, r) ==> exists|a: int| covers(sorted, idx, sorted.len() as int, a, r))',
        # (d) something survives
        'old(lints)@.len() >= 1 ==> final(lints)@.len() >= 1',
    ],
    closures=[dict(params='|l|', typed_params='|l: &Lint|', result='k: (usize, usize)', ensures='k == key_of(*l)')],
    loops={1: dict(desugar='R1', invariant=LOOP_INV, decreases='sorted.len() - __k',
                   end_proof='''last = i as int;
            assert forall|r: int| 0 <= r < __k && #[trigger] dropped(remove_indices@, r) implies exists|a: int| covers(sorted, remove_indices@, __k as int, a, r) by {
                let a = choose|a: int| covers(sorted, before, i as int, a, r); assert(covers(sorted, remove_indices@, __k as int, a, r));
            }''')},
    proofs=[
        dict(before='return;', text='lemma_removed_nothing(lints@);'),
        dict(before='lints.sort_by_key', text='assert(!0usize == 0xffff_ffff_ffff_ffffusize) by (bit_vector); broadcast use sort_key_def;'),
        dict(before='for (i, lint)', kind='ghost', text='let ghost sorted = lints@;'),
        dict(before='for (i, lint)', kind='ghost', text='let ghost mut last: int = -1;'),
        dict(before='for (i, lint)', text='''
        broadcast use spec_le_pair, sort_key_def;
        sorted.to_multiset_ensures(); old(lints)@.to_multiset_ensures();
        assert(sorted.to_multiset() == old(lints)@.to_multiset());
        assert forall|i: int| 0 <= i < sorted.len() implies (#[trigger] sorted[i]).span.start <= sorted[i].span.end by {
            assert(sorted.contains(sorted[i]));
            assert(sorted.to_multiset().count(sorted[i]) > 0);
            assert(old(lints)@.to_multiset().count(sorted[i]) > 0);
            assert(old(lints)@.contains(sorted[i]));
        }
        assert forall|i: int, j: int| 0 <= i < j < sorted.len() implies (#[trigger] sorted[i]).span.start <= (#[trigger] sorted[j]).span.start by {
            assert(spec_le(sort_key::<Lint, (usize, usize)>(sorted[i]), sort_key::<Lint, (usize, usize)>(sorted[j])));
        }'''),
        dict(before='if lint', kind='ghost', text='let ghost before = remove_indices@;'),
        dict(after='remove_indices.', text='''
                assert(remove_indices@ == before.push(i));
                lemma_push_contains(before, i);
                assert(last >= 0);
                assert(covers(sorted, remove_indices@, __k as int, last, i as int));
                assert forall|r: int| 0 <= r < __k && #[trigger] dropped(remove_indices@, r) implies exists|a: int| covers(sorted, remove_indices@, __k as int, a, r) by {
                    if r == i { } else { assert(dropped(before, r)); let a = choose|a: int| covers(sorted, before, i as int, a, r); assert(covers(sorted, remove_indices@, __k as int, a, r)); }
                }'''),
        dict(before='lints.remove_indices', text='assert(last >= 0);'),
        dict(before='lints.remove_indices', kind='ghost', text='let ghost idx = remove_indices@;'),
        dict(at='body_end', text='''
        assert(removed(sorted, idx, lints@));
        let kept = choose|kept: Seq<int>| removed_by(sorted, idx, lints@, kept);
        assert forall|i: int, j: int| 0 <= i < lints@.len() && 0 <= j < lints@.len() && i != j implies !overlaps(lints@[i].span, lints@[j].span) by {
            if i < j { assert(kept[i] < kept[j]); } else { assert(kept[j] < kept[i]); }
        }
        assert(lints@.len() >= 1) by {
            assert(!idx.contains(last as usize));
            assert(kept.contains(last));
        }'''),
    ],
)


def build(repo):
    U = Unit(NAME, repo)
    U.header = common.HEADER
    common.add_span(U, ['overlaps_with'], props=('C13',))
    U.raw('#[verifier::external_body] pub struct LintKind { _p: u8 }', name='opaque:LintKind')
    U.item('harper-core/src/linting/suggestion.rs', 'enum Suggestion', derive=())
    U.item('harper-core/src/linting/lint.rs', 'struct Lint', derive=())
    U.raw(SPEC, name='spec:overlaps')
    U.raw(SORT, name='trusted:sort')
    common.add_vecext(U, props=['C13'])
    U.fn('harper-core/src/lib.rs', 'remove_overlaps', REMOVE_OVERLAPS)
    U.raw(common.FOOTER)
    return U
