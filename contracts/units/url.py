"""Unit `url` (C01, C02): the hand-written URL scanner (RFC 1738) - every index loop terminates, stays
in bounds, and lex_url's hit consumes 1..=len chars; likewise the hostname token wrapper."""
from vx.extract import Unit
from . import common
from .lexing import VOCAB as LEX_VOCAB

NAME = 'url'
F = 'harper-core/src/lexing/url.rs'
H = 'harper-core/src/lexing/hostname.rs'

STD = '''
pub assume_specification [char::is_ascii_alphabetic](c: &char) -> (b: bool);
pub assume_specification [char::is_ascii_digit](c: &char) -> (b: bool);
pub assume_specification [char::is_ascii_hexdigit](c: &char) -> (b: bool);
pub assume_specification<T: PartialEq> [<[T]>::contains](s: &[T], x: &T) -> (b: bool);
// slice::Iter::all is a total bool for a predicate without a precondition (validate_scheme)
pub assume_specification<'a, T, P: FnMut(&'a T) -> bool> [<core::slice::Iter<'a, T> as Iterator>::all] (it: &mut core::slice::Iter<'a, T>, pred: P) -> (r: bool)
    where core::slice::Iter<'a, T>: Sized;
// a Rust allocation (hence a slice) occupies at most isize::MAX bytes and a char is 4 bytes wide (lex_hostname counts up to len + 1)
#[verifier::external_body]
pub broadcast proof fn axiom_char_slice_bytes(s: &[char])
    ensures #[trigger] s@.len() * 8 <= usize::MAX {}
'''


SOME_LE = 'r matches Some(n) ==> 1 <= n <= source@.len()'


def build(repo):
    U = Unit(NAME, repo)
    U.header = common.HEADER
    U.raw('#[verifier::external_body] pub struct WordMetadata { _p: u8 }\n#[verifier::external_body] pub struct Currency { _p: u8 }\n' + common.OPAQUE_NUMBER, name='opaque-types')
    U.item('harper-core/src/punctuation.rs', 'struct Quote', derive=())
    U.item('harper-core/src/punctuation.rs', 'enum Punctuation', derive=())
    U.item('harper-core/src/token_kind.rs', 'enum TokenKind', derive=())
    U.item('harper-core/src/lexing/mod.rs', 'struct FoundToken', derive=())
    U.raw(LEX_VOCAB.split('// plain-English tokens tile')[0], name='spec:found_ok')
    U.raw(STD + common.POSITION_SPEC, name='trusted:char')
    P = ['C01', 'C02']
    for f in ('valid_scheme_char', 'is_reserved', 'is_safe', 'is_extra', 'is_unreserved', 'is_hex'):
        U.fn(F, f, dict(props=P))
    U.fn(F, 'validate_scheme', dict(props=P))
    U.fn(F, 'lex_escaped', dict(result='r', props=P, ensures=['r matches Some(n) ==> n == 3 && 3 <= source@.len()']))
    U.fn(F, 'lex_uchar', dict(result='r', props=P, requires=['source@.len() >= 1'], ensures=[SOME_LE]))
    U.fn(F, 'lex_xchar', dict(result='r', props=P, requires=['source@.len() >= 1'], ensures=[SOME_LE]))
    U.fn(F, 'lex_xchar_string', dict(result='r', props=P, ensures=['r <= source@.len()'],
                                     loops={1: dict(invariant=['cursor <= source@.len()'], decreases='source@.len() - cursor')}))
    U.fn(F, 'is_xchar_string', dict(props=P))
    U.fn(F, 'is_uchar_plus_string', dict(props=P, loops={1: dict(invariant=['cursor <= source@.len()'], decreases='source@.len() - cursor')}))
    U.fn(F, 'lex_login', dict(result='r', props=P, ensures=['r matches Some(n) ==> n <= source@.len()']))
    U.fn(F, 'lex_ip_schemepart', dict(result='r', props=P, slice_matches=True, ensures=['r matches Some(n) ==> 2 <= n <= source@.len()'],
                                      loops={1: dict(invariant=['cursor <= rest@.len()', 'rest@.len() + 2 == source@.len()'], decreases='rest@.len() - cursor')}))
    U.fn(F, 'lex_url', dict(result='r', props=P, ensures=['found_ok(source@, r)', 'r.is_some() ==> r.unwrap().token is Url']))
    # lex_hostname: `for label in source.split(|c| *c == '.')` is desugared (R10) into the scanning loop it denotes. The running
    # count `passed_chars` equals the position reached (one per character, one per label end), so a hit never exceeds the input.
    U.fn(H, 'lex_hostname', dict(result='r', props=P, ensures=['r matches Some(n) ==> n <= source@.len()'],
                                 proofs=[dict(at='body_start', kind='broadcast', text='broadcast use axiom_char_slice_bytes;')],
                                 loops={1: dict(desugar='R10', invariant=['source@.len() * 8 <= usize::MAX', '!__fin ==> passed_chars == __s', '__fin ==> passed_chars == source@.len() + 1']),
                                        2: dict(iter_name='it', invariant=['__ls <= __e <= source@.len()', 'label@ == source@.subrange(__ls as int, __e as int)',
                                                                           'passed_chars == __ls + it.index@', 'source@.len() * 8 <= usize::MAX'])}))
    # lex_hostport: `source.iter().enumerate().find(|(_, c)| ..).map(|(i, _)| i)` is desugared (R19) into the first-index scan it denotes
    U.fn(F, 'lex_hostport', dict(result='r', props=P, fwd_find_index='if_present', ensures=['r matches Some(n) ==> n <= source@.len()']))
    # lex_email_address: the search for the last '@' (`iter().enumerate().rev().find(..)`) is desugared (R11); whether the local part
    # is acceptable (validate_local_part: tuple_windows / iterator code) is an arbitrary total bool here
    U.raw('#[verifier::external_body] fn validate_local_part(local_part: &[char]) -> bool { unimplemented!() }', name='assumed:validate_local_part')
    U.fn('harper-core/src/lexing/email_address.rs', 'lex_email_address', dict(result='r', props=P, rev_find=dict(elem='char'),
         ensures=['found_ok(source@, r)', 'r.is_some() ==> r.unwrap().token is EmailAddress && r.unwrap().next_index >= 2']))
    U.fn(H, 'lex_hostname_token', dict(result='r', props=P, ensures=['found_ok(source@, r)', 'r.is_some() ==> r.unwrap().token is Hostname && r.unwrap().next_index >= 2']))
    U.raw(common.FOOTER)
    return U
