"""Unit `patterns` (C01): the pattern engine never reports more tokens than it was given, never
indexes out of bounds and terminates. Trait contract on Pattern::matches; every listed impl is
checked against it; run_on_chunk / find_all_matches are checked against the trait contract only."""
from vx.extract import Unit
from . import common

NAME = 'patterns'
P = 'harper-core/src/patterns/'

MATCHES = dict(result='r', requires=['toks_in(tokens@, source@.len() as int)'], ensures=['r <= tokens@.len()'])


def m(**kw):
    d = dict(result='r', props=['C01'])
    d.update(kw)
    return d


SUB = 'lemma_toks_in_sub(tokens@, source@.len() as int, {a} as int, tokens@.len() as int);'

IMPLS = [
    # (file, struct selector, impl selector, matches-spec)
    ('invert.rs', 'struct Invert', 'impl Pattern for Invert', m()),
    ('sequence_pattern.rs', 'struct SequencePattern', 'impl Pattern for SequencePattern', m(
        loops={1: dict(invariant=['tok_cursor <= tokens@.len()', 'toks_in(tokens@, source@.len() as int)'])},
        proofs=[dict(before='let match_length', text=SUB.format(a='tok_cursor'))])),
    ('repeating_pattern.rs', 'struct RepeatingPattern', 'impl Pattern for RepeatingPattern', m(
        loops={1: dict(invariant=['tok_cursor <= tokens@.len()', 'repetition <= tok_cursor', 'toks_in(tokens@, source@.len() as int)'],
                       decreases='tokens@.len() - tok_cursor')},
        proofs=[dict(before='let match_len', text=SUB.format(a='tok_cursor'))])),
    ('either_pattern.rs', 'struct EitherPattern', 'impl Pattern for EitherPattern', m(
        loops={1: dict(invariant=['longest <= tokens@.len()', 'toks_in(tokens@, source@.len() as int)'])})),
    ('all.rs', 'struct All', 'impl Pattern for All', m(
        loops={1: dict(invariant=['max <= tokens@.len()', 'toks_in(tokens@, source@.len() as int)'])})),
    ('any_pattern.rs', 'struct AnyPattern', 'impl Pattern for AnyPattern', m()),
    ('consumes_remaining_pattern.rs', 'struct ConsumesRemainingPattern', 'impl Pattern for ConsumesRemainingPattern', m()),
    ('exact_phrase.rs', 'struct ExactPhrase', 'impl Pattern for ExactPhrase', m()),
    ('indefinite_article.rs', 'struct IndefiniteArticle', 'impl Pattern for IndefiniteArticle', m()),
    ('whitespace_pattern.rs', 'struct WhitespacePattern', 'impl Pattern for WhitespacePattern', m()),
    ('similar_to_phrase.rs', 'struct SimilarToPhrase', 'impl Pattern for SimilarToPhrase', m()),
    ('nominal_phrase.rs', 'struct NominalPhrase', 'impl Pattern for NominalPhrase', m(
        loops={1: dict(invariant=['cursor <= tokens@.len()'], decreases='tokens@.len() - cursor')})),
]

TRAIT_EXTRA = ''


def build(repo):
    U = Unit(NAME, repo)
    U.header = common.HEADER
    common.add_span(U, ['new', 'new_with_len', 'len', 'overlaps_with', 'get_content', 'try_get_content', 'is_empty'], props=('C01',))
    common.add_tokens(U)
    U.raw(common.kind_pred_stubs(['word', 'whitespace', 'adjective', 'determiner', 'nominal']), name='stubs:kind-preds')
    U.raw(common.POSITION_SPEC, name='trusted:position')
    U.trait(P + 'mod.rs', 'trait Pattern', {'matches': dict(MATCHES)}, cfg_not='cfg(feature="concurrent")')
    for f, st, im, spec in IMPLS:
        U.item(P + f, st, derive=())
        U.impl(P + f, im, {'matches': spec})
    # PatternMap<T> (generic payload)
    U.raw('pub trait LSend {}', name='stub:LSend')
    U.item(P + 'pattern_map.rs', 'struct PatternMap', derive=())
    U.item(P + 'pattern_map.rs', 'struct Row', derive=())
    U.impl(P + 'pattern_map.rs', 'impl<T> PatternMap<T>', {'lookup': m(result='r', requires=['toks_in(tokens@, source@.len() as int)'],
           loops={1: dict(invariant=['toks_in(tokens@, source@.len() as int)'])})})
    U.impl(P + 'pattern_map.rs', 'impl<T> Pattern for PatternMap<T>', {'matches': m(
           loops={1: dict(invariant=['toks_in(tokens@, source@.len() as int)'])})})
    # the driver loops
    U.raw(common.EXTEND_SPECS, name='trusted:extend')
    U.raw('#[verifier::external_body] pub struct LintKind { _p: u8 }', name='opaque:LintKind')
    U.item('harper-core/src/linting/suggestion.rs', 'enum Suggestion', derive=())
    U.item('harper-core/src/linting/lint.rs', 'struct Lint', derive=())
    U.trait('harper-core/src/linting/pattern_linter.rs', 'trait PatternLinter', {
        'pattern': dict(), 'match_to_lint': dict(requires=['toks_in(matched_tokens@, source@.len() as int)', 'matched_tokens@.len() >= 1'],
                                                 note='what run_on_chunk guarantees to every rule: a non-empty, in-bounds sub-slice of the chunk')})
    U.fn('harper-core/src/linting/pattern_linter.rs', 'run_on_chunk', dict(
        props=['C01', 'C03'],
        requires=['toks_in(chunk@, source@.len() as int)'],
        loops={1: dict(invariant=['tok_cursor <= chunk@.len()', 'toks_in(chunk@, source@.len() as int)'], decreases='chunk@.len() - tok_cursor')},
        proofs=[dict(before='let match_len', text='lemma_toks_in_sub(chunk@, source@.len() as int, tok_cursor as int, chunk@.len() as int);'),
                dict(before='let lint', text='lemma_toks_in_sub(chunk@, source@.len() as int, tok_cursor as int, (tok_cursor + match_len) as int);')]))
    common.add_vecext(U, props=['C01'])
    U.trait(P + 'mod.rs', 'trait PatternExt', {'find_all_matches': dict(requires=['toks_in(tokens@, source@.len() as int)'])})
    U.impl(P + 'mod.rs', 'impl<P> PatternExt for P', {'find_all_matches': dict(
        props=['C01'],
        loops={1: dict(invariant=['toks_in(tokens@, source@.len() as int)']),
               2: dict(invariant=['found@.len() >= 2', 'incr(remove_indices@)',
                                  'forall|k: int| 0 <= k < remove_indices@.len() ==> #[trigger] remove_indices@[k] <= i',
                                  'forall|k: int| 0 <= k < remove_indices@.len() ==> #[trigger] remove_indices@[k] < found@.len()'])},
        proofs=[dict(before='let len', text='lemma_toks_in_sub(tokens@, source@.len() as int, i as int, tokens@.len() as int);')])})
    U.raw(common.FOOTER)
    return U
