"""Unit `mask` (C01, C02): Mask::push_allowed keeps the allowed spans sorted and disjoint and never
trips its own assertion when called in order."""
from vx.extract import Unit
from . import common

NAME = 'mask'
M = 'harper-core/src/mask/mod.rs'

SPEC = '''
// allowed spans are well formed, in increasing order and pairwise disjoint
pub open spec fn mask_wf(a: Seq<Span>) -> bool {
    &&& forall|i: int| 0 <= i < a.len() ==> (#[trigger] a[i]).start <= a[i].end
    &&& forall|i: int, j: int| 0 <= i < j < a.len() ==> (#[trigger] a[i]).end <= (#[trigger] a[j]).start
}
// the characters a mask allows
pub open spec fn mask_allows(a: Seq<Span>, c: int) -> bool {
    exists|i: int| 0 <= i < a.len() && (#[trigger] a[i]).start <= c < a[i].end
}

pub proof fn lemma_allows_push(a: Seq<Span>, s: Span)
    ensures forall|c: int| mask_allows(a.push(s), c) <==> (mask_allows(a, c) || s.start <= c < s.end),
{
    let b = a.push(s);
    assert forall|c: int| mask_allows(b, c) <==> (mask_allows(a, c) || s.start <= c < s.end) by {
        if mask_allows(a, c) { let i = choose|i: int| 0 <= i < a.len() && (#[trigger] a[i]).start <= c < a[i].end; assert(b[i] == a[i]); }
        if s.start <= c < s.end { assert(b[a.len() as int] == s); }
        if mask_allows(b, c) {
            let i = choose|i: int| 0 <= i < b.len() && (#[trigger] b[i]).start <= c < b[i].end;
            if i < a.len() { assert(a[i] == b[i]); }
        }
    }
}
pub proof fn lemma_allows_grow_last(a: Seq<Span>, b: Seq<Span>, s: Span)
    requires a.len() > 0, b.len() == a.len(), a.last().start <= a.last().end, a.last().end == s.start, s.start <= s.end,
             forall|i: int| 0 <= i < a.len() - 1 ==> #[trigger] b[i] == a[i],
             b.last().start == a.last().start, b.last().end == s.end,
    ensures forall|c: int| mask_allows(b, c) <==> (mask_allows(a, c) || s.start <= c < s.end),
{
    let n = a.len() - 1;
    assert forall|c: int| mask_allows(b, c) <==> (mask_allows(a, c) || s.start <= c < s.end) by {
        if mask_allows(a, c) {
            let i = choose|i: int| 0 <= i < a.len() && (#[trigger] a[i]).start <= c < a[i].end;
            if i < n { assert(b[i] == a[i]); } else { assert(b[n].start <= c < b[n].end); }
        }
        if s.start <= c < s.end { assert(b[n].start <= c < b[n].end); }
        if mask_allows(b, c) {
            let i = choose|i: int| 0 <= i < b.len() && (#[trigger] b[i]).start <= c < b[i].end;
            if i < n { assert(a[i] == b[i]); } else { if c < s.start { assert(a[n].start <= c < a[n].end); } }
        }
    }
}
'''

MERGE_SPEC = '''
// ---- trusted std: total pure bool functions (their value plays no role in the proved clauses) ----
pub assume_specification<'a, T, P: FnMut(&'a T) -> bool> [<core::slice::Iter<'a, T> as Iterator>::all] (it: &mut core::slice::Iter<'a, T>, pred: P) -> (r: bool)
    where core::slice::Iter<'a, T>: Sized;

// every allowed span ends inside the text
pub open spec fn mask_in(a: Seq<Span>, n: int) -> bool { forall|i: int| 0 <= i < a.len() ==> (#[trigger] a[i]).end <= n }
// the characters allowed by the first f spans
pub open spec fn mask_allows_upto(a: Seq<Span>, f: int, c: int) -> bool {
    exists|i: int| 0 <= i < f && i < a.len() && (#[trigger] a[i]).start <= c < a[i].end
}

// one step of the pass: the spans i .. nxt-1 (one span, or two merged ones) are appended as the single span s
pub proof fn lemma_merge_step(allowed: Seq<Span>, a0: Seq<Span>, i: int, nxt: int, s: Span)
    requires mask_wf(allowed), mask_wf(a0), 0 <= i < allowed.len(), nxt == i + 1 || (nxt == i + 2 && i + 1 < allowed.len()),
             s.start == allowed[i].start, s.end == allowed[nxt - 1].end,
             forall|k: int, m: int| 0 <= k < a0.len() && i <= m < allowed.len() ==> (#[trigger] a0[k]).end <= (#[trigger] allowed[m]).start,
             forall|c: int| mask_allows_upto(allowed, i, c) ==> mask_allows(a0, c),
    ensures mask_wf(a0.push(s)),
            forall|k: int, m: int| 0 <= k < a0.push(s).len() && nxt <= m < allowed.len() ==> (#[trigger] a0.push(s)[k]).end <= (#[trigger] allowed[m]).start,
            forall|c: int| mask_allows_upto(allowed, nxt, c) ==> mask_allows(a0.push(s), c),
{
    let r = a0.push(s);
    assert(allowed[i].start <= allowed[i].end);
    if nxt == i + 2 { assert(allowed[i].end <= allowed[i + 1].start); assert(allowed[i + 1].start <= allowed[i + 1].end); }
    assert(s.start <= s.end);
    assert forall|x: int| 0 <= x < r.len() implies (#[trigger] r[x]).start <= r[x].end by {
        if x < a0.len() { assert(r[x] == a0[x]); }
    }
    assert forall|x: int, y: int| 0 <= x < y < r.len() implies (#[trigger] r[x]).end <= (#[trigger] r[y]).start by {
        assert(r[x] == a0[x]);
        if y < a0.len() { assert(r[y] == a0[y]); } else { assert(a0[x].end <= allowed[i].start); }
    }
    assert forall|k: int, m: int| 0 <= k < r.len() && nxt <= m < allowed.len() implies (#[trigger] r[k]).end <= (#[trigger] allowed[m]).start by {
        if k < a0.len() { assert(r[k] == a0[k]); } else { assert(allowed[nxt - 1].end <= allowed[m].start); }
    }
    lemma_allows_push(a0, s);
    assert forall|c: int| mask_allows_upto(allowed, nxt, c) implies mask_allows(r, c) by {
        let k = choose|k: int| 0 <= k < nxt && k < allowed.len() && (#[trigger] allowed[k]).start <= c < allowed[k].end;
        if k < i {
            assert(mask_allows_upto(allowed, i, c));
            assert(mask_allows(a0, c));
            let j = choose|j: int| 0 <= j < a0.len() && (#[trigger] a0[j]).start <= c < a0[j].end;
            assert(0 <= j < a0.len());
            assert(a0.push(s)[j] == a0[j]);
            assert(r[j] == a0[j]);
        } else {
            assert(s.start <= c < s.end);
            assert(r[a0.len() as int] == s);
        }
    }
}
'''

# one pass of merge_whitespace_sep: `after` stays well formed, ends before everything not yet visited, and allows
# every character the visited spans allowed; the recursion terminates because a pass that changes the number of
# spans strictly decreases it
MERGE = dict(
    props=['C01', 'C02', 'C04'],
    requires=['mask_wf(old(self).allowed@)', 'mask_in(old(self).allowed@, source@.len() as int)'],
    ensures=['mask_wf(final(self).allowed@)', 'mask_in(final(self).allowed@, source@.len() as int)',
             'final(self).allowed@.len() <= old(self).allowed@.len()',
             # nothing that was allowed is lost
             'forall|c: int| mask_allows(old(self).allowed@, c) ==> mask_allows(final(self).allowed@, c)'],
    decreases='old(self).allowed@.len()',
    loops={1: dict(invariant=[
        'self.allowed@ == old(self).allowed@', 'mask_wf(self.allowed@)', 'mask_in(self.allowed@, source@.len() as int)',
        'iter.end == self.allowed@.len()', 'iter.start <= iter.end',
        'mask_wf(after@)', 'mask_in(after@, source@.len() as int)', 'after@.len() <= iter.start',
        'forall|k: int, m: int| 0 <= k < after@.len() && iter.start <= m < self.allowed@.len() ==> (#[trigger] after@[k]).end <= (#[trigger] self.allowed@[m]).start',
        'forall|c: int| mask_allows_upto(self.allowed@, iter.start as int, c) ==> mask_allows(after@, c)',
    ], ensures=['iter.start >= iter.end'], decreases='iter.end - iter.start')},
    proofs=[
        dict(before='iter.next();', kind='ghost', text='let ghost a0 = after@;'),
        dict(before='continue;', text="""
            assert(self.allowed@[i as int] == a && self.allowed@[i + 1] == *b);
            lemma_merge_step(self.allowed@, a0, i as int, i + 2, Span { start: a.start, end: b.end });
            assert(after@ == a0.push(Span { start: a.start, end: b.end }));
        """),
        dict(before='after.push(a);', kind='ghost', text='let ghost a1 = after@;'),
        dict(after='after.push(a);', text="""
            assert(self.allowed@[i as int] == a);
            lemma_merge_step(self.allowed@, a1, i as int, i + 1, a);
            assert(after@ == a1.push(a));
        """),
        dict(at='after_loop', loop=1, text="""
            assert forall|c: int| mask_allows(old(self).allowed@, c) implies mask_allows(after@, c) by {
                let k = choose|k: int| 0 <= k < self.allowed@.len() && (#[trigger] self.allowed@[k]).start <= c < self.allowed@[k].end;
                assert(iter.start == self.allowed@.len());
                assert(mask_allows_upto(self.allowed@, iter.start as int, c));
            }
        """),
    ],
)

PUSH = dict(
    props=['C01', 'C02', 'C04'],
    requires=['mask_wf(old(self).allowed@)', 'allowed.start <= allowed.end',
              'old(self).allowed@.len() > 0 ==> allowed.start >= old(self).allowed@.last().end'],
    ensures=['mask_wf(final(self).allowed@)',
             # exactly the old characters plus the new span are allowed afterwards
             'forall|c: int| mask_allows(final(self).allowed@, c) <==> (mask_allows(old(self).allowed@, c) || allowed.start <= c < allowed.end)',
             # the new span is the last one, and a mask that was inside a text of n characters stays inside it
             'final(self).allowed@.len() > 0 && final(self).allowed@.last().end == allowed.end',
             'forall|n: int| mask_in(old(self).allowed@, n) && allowed.end <= n ==> mask_in(final(self).allowed@, n)'],
    proofs=[dict(before='return;', text='lemma_allows_grow_last(old(self).allowed@, self.allowed@, allowed);'),
            dict(before='self.allowed.push(allowed)', text='assert(self.allowed@ =~= old(self).allowed@); lemma_allows_push(self.allowed@, allowed); let f = self.allowed@.push(allowed); assert forall|c: int| mask_allows(f, c) <==> (mask_allows(old(self).allowed@, c) || allowed.start <= c < allowed.end) by {}')],
)


def build(repo):
    U = Unit(NAME, repo)
    U.header = common.HEADER
    common.add_span(U, ['new', 'len', 'is_empty', 'get_content', 'try_get_content'], props=('C01',))
    U.item(M, 'struct Mask', derive=())
    U.raw(SPEC, name='spec:mask')
    U.raw(MERGE_SPEC, name='spec:mask-merge')
    U.impl(M, 'impl Mask', {'new_blank': dict(result='r', props=['C01', 'C02'], ensures=['r.allowed@.len() == 0', 'mask_wf(r.allowed@)']),
                            'push_allowed': PUSH,
                            'merge_whitespace_sep': MERGE})
    U.raw(common.FOOTER)
    return U
