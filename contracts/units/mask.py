"""Unit `mask` (C01, C02): Mask::push_allowed keeps the allowed spans sorted and disjoint and never
trips its own assertion when called in order."""
from vx.extract import Unit
from . import common

NAME = 'mask'
M = 'harper-core/src/mask/mod.rs'

SPEC = '''
// allowed spans are well formed, in increasing order and pairwise disjoint
pub open spec fn mask_wf(a: Seq<Span>) -> bool {
    &&& forall|i: int| 0 <= i < a.len() ==> (#[trigger] a[i]).start <= a[i].end
    &&& forall|i: int, j: int| 0 <= i < j < a.len() ==> (#[trigger] a[i]).end <= (#[trigger] a[j]).start
}
// the characters a mask allows
pub open spec fn mask_allows(a: Seq<Span>, c: int) -> bool {
    exists|i: int| 0 <= i < a.len() && (#[trigger] a[i]).start <= c < a[i].end
}

pub proof fn lemma_allows_push(a: Seq<Span>, s: Span)
    ensures forall|c: int| mask_allows(a.push(s), c) <==> (mask_allows(a, c) || s.start <= c < s.end),
{
    let b = a.push(s);
    assert forall|c: int| mask_allows(b, c) <==> (mask_allows(a, c) || s.start <= c < s.end) by {
        if mask_allows(a, c) { let i = choose|i: int| 0 <= i < a.len() && (#[trigger] a[i]).start <= c < a[i].end; assert(b[i] == a[i]); }
        if s.start <= c < s.end { assert(b[a.len() as int] == s); }
        if mask_allows(b, c) {
            let i = choose|i: int| 0 <= i < b.len() && (#[trigger] b[i]).start <= c < b[i].end;
            if i < a.len() { assert(a[i] == b[i]); }
        }
    }
}
pub proof fn lemma_allows_grow_last(a: Seq<Span>, b: Seq<Span>, s: Span)
    requires a.len() > 0, b.len() == a.len(), a.last().start <= a.last().end, a.last().end == s.start, s.start <= s.end,
             forall|i: int| 0 <= i < a.len() - 1 ==> #[trigger] b[i] == a[i],
             b.last().start == a.last().start, b.last().end == s.end,
    ensures forall|c: int| mask_allows(b, c) <==> (mask_allows(a, c) || s.start <= c < s.end),
{
    let n = a.len() - 1;
    assert forall|c: int| mask_allows(b, c) <==> (mask_allows(a, c) || s.start <= c < s.end) by {
        if mask_allows(a, c) {
            let i = choose|i: int| 0 <= i < a.len() && (#[trigger] a[i]).start <= c < a[i].end;
            if i < n { assert(b[i] == a[i]); } else { assert(b[n].start <= c < b[n].end); }
        }
        if s.start <= c < s.end { assert(b[n].start <= c < b[n].end); }
        if mask_allows(b, c) {
            let i = choose|i: int| 0 <= i < b.len() && (#[trigger] b[i]).start <= c < b[i].end;
            if i < n { assert(a[i] == b[i]); } else { if c < s.start { assert(a[n].start <= c < a[n].end); } }
        }
    }
}
'''

PUSH = dict(
    props=['C01', 'C02'],
    requires=['mask_wf(old(self).allowed@)', 'allowed.start <= allowed.end',
              'old(self).allowed@.len() > 0 ==> allowed.start >= old(self).allowed@.last().end'],
    ensures=['mask_wf(final(self).allowed@)',
             # exactly the old characters plus the new span are allowed afterwards
             'forall|c: int| mask_allows(final(self).allowed@, c) <==> (mask_allows(old(self).allowed@, c) || allowed.start <= c < allowed.end)'],
    proofs=[dict(before='return;', text='lemma_allows_grow_last(old(self).allowed@, self.allowed@, allowed);'),
            dict(before='self.allowed.push(allowed)', text='assert(self.allowed@ =~= old(self).allowed@); lemma_allows_push(self.allowed@, allowed); let f = self.allowed@.push(allowed); assert forall|c: int| mask_allows(f, c) <==> (mask_allows(old(self).allowed@, c) || allowed.start <= c < allowed.end) by {}')],
)


def build(repo):
    U = Unit(NAME, repo)
    U.header = common.HEADER
    common.add_span(U, [], props=('C01',))
    U.item(M, 'struct Mask', derive=())
    U.raw(SPEC, name='spec:mask')
    U.impl(M, 'impl Mask', {'new_blank': dict(result='r', props=['C01', 'C02'], ensures=['r.allowed@.len() == 0', 'mask_wf(r.allowed@)']),
                            'push_allowed': PUSH})
    U.raw(common.FOOTER)
    return U
