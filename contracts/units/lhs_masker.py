"""Unit `lhs_masker` (C01, C02, C04): harper-literate-haskell's `LiterateHaskellMasker::create_mask` meets the Masker contract that
`parsers::Mask<M, P>::parse` (unit mask_parser) assumes of its type parameter: the mask it returns is well formed (spans with
start <= end, increasing, disjoint) and lies inside the text; `Span::new` / `Mask::push_allowed` never hit their assertions (the
lone-'>' defect D9 lived here), no overflow, the line loop terminates.

Which lines are code fences is decided by tests on a `str` (`to_string().trim()`, `==`, `matches!`), outside this Verus: abstraction
A1 replaces those five boolean tests by arbitrary bools, so the result holds for EVERY outcome of them; what they decide is not verified.
The line loop is R10-desugared (`for line in source.split(..)` with `continue`)."""
from vx.extract import Unit
from . import common
from . import mask as mask_unit

NAME = 'lhs_masker'
F = 'harper-literate-haskell/src/masker.rs'
M = 'harper-core/src/mask/mod.rs'

PRELUDE = '''
// a Rust allocation (hence a slice) occupies at most isize::MAX bytes and a char is 4 bytes wide
#[verifier::external_body]
pub broadcast proof fn axiom_char_slice_bytes(s: &[char])
    ensures #[trigger] s@.len() * 8 <= usize::MAX {}
// abstraction A1: the value of a boolean test on a str
#[verifier::external_body]
pub fn any_bool() -> bool { unimplemented!() }
'''

CREATE_MASK = dict(
    result='r', props=['C01', 'C02', 'C04'],
    opaque_bools=['line.first().is_some_and(|c| *c == \'>\')',
                  'matches!(trimmed, r"\\begin{code}" | r"\\end{code}")',
                  'trimmed == r"\\begin{code}"', 'trimmed == r"\\end{code}"', 'trimmed.is_empty()'],
    drop_lets=['string_form', 'trimmed'],
    loops={1: dict(desugar='R10', invariant=[
        'source@.len() * 8 <= usize::MAX',
        '!__fin ==> location == __s', '__fin ==> location == source@.len() + 1',
        'mask_wf(mask.allowed@)', 'mask_in(mask.allowed@, source@.len() as int)',
        'mask.allowed@.len() > 0 ==> mask.allowed@.last().end < location'])},
    proofs=[dict(at='body_start', kind='broadcast', text='broadcast use axiom_char_slice_bytes;')],
)


def build(repo):
    U = Unit(NAME, repo)
    U.header = common.HEADER
    common.add_span(U, ['new', 'len', 'is_empty', 'get_content', 'try_get_content'], props=('C01',))
    U.item(M, 'struct Mask', derive=())
    U.raw(mask_unit.SPEC, name='spec:mask')
    U.raw(mask_unit.MERGE_SPEC, name='spec:mask-merge')
    callee = lambda d: dict({k: v for k, v in d.items() if k in ('requires', 'ensures', 'props')}, external_body=True, proved_in='mask',
                            assumed='callee contract', note='body verified in unit mask against this same contract (shared text)')
    U.impl(M, 'impl Mask', {'new_blank': dict(result='r', props=['C01', 'C02'], ensures=['r.allowed@.len() == 0', 'mask_wf(r.allowed@)']),
                            'push_allowed': callee(mask_unit.PUSH),
                            'merge_whitespace_sep': callee(mask_unit.MERGE)})
    U.raw(PRELUDE, name='trusted:prelude')
    U.trait(M, 'trait Masker', {'create_mask': dict(result='r', ensures=['mask_wf(r.allowed@)', 'mask_in(r.allowed@, source@.len() as int)'],
                                                     note='the Masker contract assumed by parsers::Mask<M,P>::parse (unit mask_parser: spans_ok)')})
    U.item(F, 'struct LiterateHaskellMasker', derive=())
    U.impl(F, 'impl Masker for LiterateHaskellMasker', {'create_mask': CREATE_MASK})
    U.raw(common.FOOTER)
    return U
