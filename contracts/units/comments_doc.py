"""Unit `comments_doc` (C01, C02, C04): the two documentation-comment parsers of harper-comments, `JsDoc::parse` (line loop, same
shape as `Unit::parse`) and `JavaDoc::parse` (HTML parser + removal of the leading ` * ` decoration of every line + block-tag
marking).  GIVEN in-bounds ordered tokens from the inner parser, the result is in bounds and ordered; no index / slice /
`Span::new` panic, no overflow, all loops terminate (the JavaDoc decoration loop is the site of seed C01-d1)."""
from vx.extract import Unit
from . import common
from .mask_parser import SPEC as TOKS_SPEC
from .comments import PRELUDE, SHIFT_INV, SP_MEMBERS
from . import jsdoc as jsdoc_unit

NAME = 'comments_doc'
C = 'harper-comments/src/comment_parsers/'

STUBS = '''
// derive(Is) predicates of TokenKind used by the block-tag loop: arbitrary total bools
impl TokenKind {
    #[verifier::external_body] pub fn is_at(&self) -> bool { unimplemented!() }
    #[verifier::external_body] pub fn is_word(&self) -> bool { unimplemented!() }
    #[verifier::external_body] pub fn is_space(&self) -> bool { unimplemented!() }
}
pub open spec fn same_spans(a: Seq<Token>, b: Seq<Token>) -> bool { a.len() == b.len() && forall|j: int| 0 <= j < a.len() ==> (#[trigger] a[j]).span == b[j].span }
pub proof fn lemma_same_spans_ok(a: Seq<Token>, b: Seq<Token>, n: int)
    requires same_spans(a, b), toks_ok(b, n),
    ensures toks_ok(a, n),
{
    assert forall|i: int| 0 <= i < a.len() implies span_in(#[trigger] a[i].span, n) by { assert(span_in(b[i].span, n)); }
    assert forall|i: int, j: int| 0 <= i < j < a.len() implies #[trigger] a[i].span.end <= #[trigger] a[j].span.start by { assert(b[i].span.end <= b[j].span.start); }
}
// deleting positions from an in-bounds ordered list leaves an in-bounds ordered list
pub proof fn lemma_keepseq_ok(s: Seq<Token>, rm: Seq<usize>, f: int, n: int)
    requires toks_ok(s, n), 0 <= f <= s.len(),
    ensures toks_ok(keepseq(s, rm, f), n),
            forall|k: int| 0 <= k < keepseq(s, rm, f).len() ==> exists|i: int| 0 <= i < f && (#[trigger] keepseq(s, rm, f)[k]) == s[i],
            f > 0 ==> toks_before(keepseq(s, rm, f), s[f - 1].span.end as int),
    decreases f
{
    if f > 0 {
        lemma_keepseq_ok(s, rm, f - 1, n);
        let p = keepseq(s, rm, f - 1); let r = keepseq(s, rm, f);
        assert(span_in(s[f - 1].span, n));
        assert forall|k: int| 0 <= k < p.len() implies (#[trigger] p[k]).span.end <= s[f - 1].span.start by {
            let i = choose|i: int| 0 <= i < f - 1 && p[k] == s[i];
            assert(s[i].span.end <= s[f - 1].span.start);
        }
        if in_rm(rm, f - 1) {
            assert forall|k: int| 0 <= k < r.len() implies (#[trigger] r[k]).span.end <= s[f - 1].span.end by { assert(p[k].span.end <= s[f - 1].span.start); }
        } else {
            assert(r == p.push(s[f - 1]));
            assert forall|i: int| 0 <= i < r.len() implies span_in(#[trigger] r[i].span, n) by { if i < p.len() { assert(r[i] == p[i]); assert(span_in(p[i].span, n)); } }
            assert forall|i: int, j: int| 0 <= i < j < r.len() implies #[trigger] r[i].span.end <= #[trigger] r[j].span.start by {
                assert(r[i] == p[i]);
                if j < p.len() { assert(r[j] == p[j]); }
            }
            assert forall|k: int| 0 <= k < r.len() implies exists|i: int| 0 <= i < f && (#[trigger] r[k]) == s[i] by {
                if k < p.len() { assert(r[k] == p[k]); let i = choose|i: int| 0 <= i < f - 1 && p[k] == s[i]; assert(r[k] == s[i]); } else { assert(r[k] == s[f - 1]); }
            }
            assert forall|k: int| 0 <= k < r.len() implies (#[trigger] r[k]).span.end <= s[f - 1].span.end by { if k < p.len() { assert(r[k] == p[k]); assert(p[k].span.end <= s[f - 1].span.start); } }
        }
    }
}
'''

JSDOC_PARSE = dict(
    result='r', props=['C01', 'C02', 'C04'],
    loops={1: dict(desugar='R10', invariant=[
        'source@.len() * 8 <= usize::MAX',
        '!__fin ==> chars_traversed == __s', '__fin ==> chars_traversed == source@.len() + 1',
        'toks_ok(tokens@, source@.len() as int)', 'toks_before(tokens@, imin(chars_traversed as int, source@.len() as int))'])},
    for_each=[dict(invariant=['chars_traversed <= source@.len()', 'source@.len() * 8 <= usize::MAX'] + SHIFT_INV('chars_traversed', 'source@.len() - chars_traversed'),
                   body_proof='assert(span_in(nt0[__i - 1].span, source@.len() - chars_traversed));')],
    proofs=[dict(at='body_start', kind='broadcast', text='broadcast use axiom_char_slice_bytes;'),
            dict(after='let mut new_tokens', kind='ghost', text='let ghost pl = new_tokens@;'),
            dict(before='new_tokens.iter_mut', kind='ghost', text='let ghost nt0 = new_tokens@;'),
            dict(before='new_tokens.iter_mut', text='''
                assert forall|j: int| 0 <= j < nt0.len() implies span_in((#[trigger] nt0[j]).span, source@.len() - chars_traversed) by {
                    if j < pl.len() { assert(nt0[j] == pl[j]); assert(span_in(pl[j].span, line@.len() as int)); }
                }
                assert forall|i: int, j: int| 0 <= i < j < nt0.len() implies (#[trigger] nt0[i]).span.end <= (#[trigger] nt0[j]).span.start by {
                    assert(nt0[i] == pl[i]); assert(span_in(pl[i].span, line@.len() as int));
                    if j < pl.len() { assert(nt0[j] == pl[j]); }
                }'''),
            dict(before='chars_traversed += line.len() + 1', text='''
                assert forall|j: int| 0 <= j < new_tokens@.len() implies chars_traversed <= (#[trigger] new_tokens@[j]).span.start <= new_tokens@[j].span.end <= imin(chars_traversed + line@.len() + 1, source@.len() as int) by {
                    assert(span_in(nt0[j].span, source@.len() - chars_traversed));
                    if j < pl.len() { assert(nt0[j] == pl[j]); assert(span_in(pl[j].span, line@.len() as int)); }
                }
                assert forall|i: int, j: int| 0 <= i < j < new_tokens@.len() implies (#[trigger] new_tokens@[i]).span.end <= (#[trigger] new_tokens@[j]).span.start by {
                    assert(nt0[i].span.end <= nt0[j].span.start);
                }
                lemma_append_shifted(tokens@, new_tokens@, source@.len() as int, chars_traversed as int, imin(chars_traversed + line@.len() + 1, source@.len() as int));'''),
            ],
)

JAVADOC_PARSE = dict(
    result='r', props=['C01', 'C02', 'C04'],
    loops={
        1: dict(invariant=['tokens@ == t0', 'cursor <= tokens@.len()', 'incr(remove_these@)',
                           'forall|k: int| 0 <= k < remove_these@.len() ==> #[trigger] remove_these@[k] < cursor'],
                decreases='tokens@.len() - cursor'),
        2: dict(invariant=['tokens@ == t0', 'c0 < cursor <= tokens@.len()', 'incr(remove_these@)',
                           'forall|k: int| 0 <= k < remove_these@.len() ==> #[trigger] remove_these@[k] < cursor'],
                decreases='tokens@.len() - cursor'),
        3: dict(desugar='R8', invariant=['actual.start <= actual.end', 'actual.end <= source@.len()', 'tokens@.len() == t1.len()', 'toks_ok(t1, actual.end - actual.start)',
                                         'forall|j: int| __i <= j < tokens@.len() ==> tokens@[j] == t1[j]',
                                         'forall|j: int| 0 <= j < __i ==> (#[trigger] tokens@[j]).span.start == t1[j].span.start + actual.start && tokens@[j].span.end == t1[j].span.end + actual.start'],
                decreases='tokens@.len() - __i'),
        4: dict(invariant=['same_spans(tokens@, t2)', 'it.snapshot.end == t2.len()'], iter_name='it'),
    },
    proofs=[dict(after='let mut tokens', kind='ghost', text='let ghost t0 = tokens@;'),
            dict(at='loop_body_start', loop=1, kind='ghost', text='let ghost c0 = cursor;'),
            dict(before='tokens.remove_indices', text='assert(tokens.ri_pre(remove_these@)); lemma_keepseq_ok(t0, remove_these@, t0.len() as int, actual.end - actual.start);'),
            dict(after='tokens.remove_indices', kind='ghost', text='let ghost t1 = tokens@;'),
            dict(at='loop_body_start', loop=3, text='assert(span_in(t1[__i - 1].span, actual.end - actual.start));'),
            dict(before='super::jsdoc::mark_inline_tags', text='''
        assert forall|j: int| 0 <= j < tokens@.len() implies span_in((#[trigger] tokens@[j]).span, source@.len() as int) by { assert(span_in(t1[j].span, actual.end - actual.start)); }
        assert forall|i: int, j: int| 0 <= i < j < tokens@.len() implies (#[trigger] tokens@[i]).span.end <= (#[trigger] tokens@[j]).span.start by { assert(t1[i].span.end <= t1[j].span.start); }'''),
            dict(before='super::jsdoc::mark_inline_tags', kind='ghost', text='let ghost t15 = tokens@;'),
            dict(after='super::jsdoc::mark_inline_tags', text='lemma_same_spans_ok(tokens@, t15, source@.len() as int);'),
            dict(after='super::jsdoc::mark_inline_tags', kind='ghost', text='let ghost t2 = tokens@;'),
            dict(before='tokens', nth=6, text='lemma_same_spans_ok(tokens@, t2, source@.len() as int);'),
            ],
)


def build(repo):
    U = Unit(NAME, repo)
    U.header = common.HEADER
    common.add_span(U, list(common.SPAN_FNS), props=('C01',))
    common.add_tokens(U)
    U.impl('harper-core/src/token.rs', 'impl Token', {'new': dict(result='r', props=['C01'], ensures=['r.span == span', 'r.kind == kind'])})
    U.raw(PRELUDE, name='trusted:prelude')
    U.raw(TOKS_SPEC, name='spec:toks_ok')
    U.trait('harper-core/src/parsers/mod.rs', 'trait Parser', {'parse': dict(result='r', ensures=['toks_ok(r@, source@.len() as int)', 'self.sp_det() ==> r@ == self.sp_parse(source@)'],
                                                                             note='the front-end contract of C02; proved for PlainEnglish in unit lexing')},
            cfg_not='cfg(feature="concurrent")',
            extra_members='    spec fn sp_parse(&self, source: Seq<char>) -> Seq<Token>;\n    spec fn sp_det(&self) -> bool;')
    common.add_vecext(U, props=['C01'])
    U.fn(C + 'mod.rs', 'without_initiators', dict(
        result='r', external_body=True, props=['C01', 'C02', 'C04'], ensures=['r.start <= r.end', 'r.end <= source@.len()'],
        assumed='r.start <= r.end <= |source|', note='see unit comments'))
    U.raw(STUBS, name='assumed:stubs', props=['C02'])
    # jsdoc.rs: callee contracts only (modular); both bodies are verified against these same contract texts in unit `jsdoc`
    callee = lambda d, props: dict(d, external_body=True, proved_in='jsdoc', props=props, assumed='callee contract', note='body verified in unit jsdoc')
    U.fn(C + 'jsdoc.rs', 'mark_inline_tags', callee(jsdoc_unit.MARK_INLINE_TAGS_CONTRACT, ['C01', 'C02']))
    U.fn(C + 'jsdoc.rs', 'parse_line', callee(jsdoc_unit.PARSE_LINE_CONTRACT, ['C01', 'C02', 'C04']))
    U.item(C + 'jsdoc.rs', 'struct JsDoc', derive=())
    U.impl(C + 'jsdoc.rs', 'impl Parser for JsDoc', {'parse': JSDOC_PARSE}, extra_members=SP_MEMBERS)
    U.item(C + 'javadoc.rs', 'struct JavaDoc', derive=())
    U.impl(C + 'javadoc.rs', 'impl Parser for JavaDoc', {'parse': JAVADOC_PARSE}, extra_members=SP_MEMBERS)
    # harper-html: HtmlParser::parse = masked plain-English parse, then every Space token's count clamped to 0..=1 (spans untouched)
    U.raw('''
pub mod parsers {
    use super::*;
    // parsers::Mask<TreeSitterMasker, PlainEnglish>: proved composition (unit mask_parser) over a tree-sitter masker; here only its Parser contract is used
    pub struct Mask<M, P> { pub masker: M, pub parser: P }
    impl<M, P> Parser for Mask<M, P> {
        open spec fn sp_det(&self) -> bool { false }
        open spec fn sp_parse(&self, source: Seq<char>) -> Seq<Token> { Seq::empty() }
        #[verifier::external_body]
        fn parse(&self, source: &[char]) -> (r: Vec<Token>) { unimplemented!() }
    }
}
pub struct TreeSitterMasker { pub _p: u8 }
pub struct PlainEnglish;
''', name='assumed:html-inner')
    H = 'harper-html/src/lib.rs'
    U.item(H, 'struct HtmlParser', derive=())
    U.impl(H, 'impl Parser for HtmlParser', {'parse': dict(
        result='r', props=['C01', 'C02', 'C04'],
        loops={1: dict(desugar='R8', invariant=['same_spans(tokens@, t0)'], decreases='tokens@.len() - __i')},
        proofs=[dict(after='let mut tokens', kind='ghost', text='let ghost t0 = tokens@;'),
                dict(before='tokens', text='lemma_same_spans_ok(tokens@, t0, source@.len() as int);')])},
        extra_members=SP_MEMBERS)
    U.raw(common.FOOTER)
    return U
