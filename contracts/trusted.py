"""Every assumption the generated units may contain. The driver scans each generated unit for
assume / admit / external_body / assume_specification / uninterp and exits 2 on a hit that is
not matched by a prefix below. Keep in sync with TRUSTED.md (human-readable reasons)."""
TRUSTED = [
    # Vec::extend appends what the iterator yields
    'assume_specification: <Vec<T, A> as Extend<T>>::extend',
    "assume_specification: <Vec<T, A> as Extend<&'a T>>::extend",
    'uninterp: ext_seq',
    'external_body: ext_seq_vec', 'external_body: ext_seq_vec_ref', 'external_body: ext_seq_skip',
    # machine fact: slice length is a usize
    'external_body: axiom_slice_len_bound',
    # opaque data types / total predicates with no postcondition
    'external_body: is_', 'external_body: to_string', 'external_body: to_lower',
]
