"""Every assumption the generated units may contain, with the reason it is acceptable.
The driver scans each generated unit for assume / admit / external_body / assume_specification /
uninterp and exits 2 (undecided) on a hit not matched by a key below; the hits of a run are copied
to coverage.trusted_base of the evidence."""
TRUSTED_REASONS = {
    # --- std behaviour, one or two lines each, from the std documentation ---
    'assume_specification: <Vec<T, A> as Extend<T>>::extend': 'Vec::extend appends what the iterator yields',
    "assume_specification: <Vec<T, A> as Extend<&'a T>>::extend": 'Vec::extend(&T: Copy) appends copies of what the iterator yields',
    'uninterp: ext_seq': 'the sequence an IntoIterator yields (axiomatised for Vec, &Vec, Skip<IntoIter>)',
    'external_body: ext_seq_vec': 'a Vec yields its elements in order',
    'external_body: ext_seq_vec_ref': '&Vec yields references to its elements in order',
    'external_body: ext_seq_skip': 'Skip<vec::IntoIter> yields the remaining elements',
    'external_body: axiom_slice_len_bound': 'machine fact: a slice length is a usize',
    "assume_specification: <core::slice::Iter<'a, T> as Iterator>::position": 'a hit of position() is an index into what was left of the iterator',
    'assume_specification: char::is_alphanumeric': 'total pure bool (no postcondition)',
    'assume_specification: char::is_numeric': 'total pure bool (no postcondition)',
    'assume_specification: char::is_ascii_alphanumeric': 'total pure bool (no postcondition)',
    'assume_specification: char::is_ascii_hexdigit': 'total pure bool (no postcondition)',
    'assume_specification: char::is_ascii_digit': "true exactly for '0'..='9'",
    'assume_specification: <[T]>::sort_by_key': 'result is a permutation, sorted (spec_le) by the key the closure is specified to compute',
    'uninterp: sort_key': 'the key function of the sort_by_key call (defined per unit by sort_key_def)',
    'uninterp: spec_le': 'Ord on the key type (axiomatised for (usize, usize) as lexicographic order)',
    'external_body: spec_le_pair': 'lexicographic <= on (usize, usize) = derived Ord of tuples',
    'external_body: sort_key_def': 'binds sort_key::<Lint,(usize,usize)> to key_of, the function the closure ensures it computes',
    'external_body: ext_seq_iter': 'an Iterator yields its remaining() elements (vstd iterator model)',
    'assume_specification: char::is_ascii_alphabetic': 'total pure bool (no postcondition)',
    'assume_specification: <[T]>::contains': 'total pure bool (no postcondition)',
    'assume_specification: <core::slice::Iter<\'a, T> as Iterator>::all': 'total bool (no postcondition); sound for closures without preconditions, which is what the call site passes',
    'external_body: lex_hostname': 'callee contract in unit lexing/others; the body is verified in unit url (desugaring R10 of slice::split)',
    'external_body: lex_hostport': 'enumerate().find(): contract Some(n) ==> n <= len assumed; reached by Kani harness lexing.url_4 (bounded)',
    'external_body: without_initiators': 'comments unit: r.start <= r.end <= |source| ASSUMED (two position() scans whose predicate calls char::is_whitespace; vstd specifies that function without a result function and rejects a second specification, so the scans cannot be related); rac:comment_frontends / prose_offsets exercise it',
    'external_body: validate_scheme': 'iter().all(): arbitrary total bool',
    'external_body: validate_local_part': 'e-mail local part check (tuple_windows / iterator code over a sub-slice): arbitrary total bool; its termination and panic-freedom are covered by rac:lexers only',

    'external_body: condense_indices': 'peekable()-based body; contract assumed in Verus, checked by rac:condense_indices (bounded: len<=7, stretch<=3)',
    'external_body: next': 'stub iterators standing for one-line iterator adapters of /repo: number_lint unit (Document::iter_numbers, paste!-generated tokens.iter().filter(is_number): assumed to yield document tokens of kind Number) and mask_parser unit (Mask::iter_allowed: assumed to yield the allowed spans in order with their characters); both assumed to terminate',
    'external_body: iter_numbers': 'see external_body: next',
    'external_body: iter_quote_indices': 'document unit: stub for the paste!-generated TokenStringExt::iter_quote_indices (tokens.iter().enumerate().filter(is_quote).map(index)) + collect(): ASSUMED to yield exactly the positions of the quote tokens, in increasing order',
    'external_body: iter_allowed': 'mask_parser unit: Mask::iter_allowed is a one-line iterator adapter (allowed.iter().map(|s| (*s, s.get_content(source)))); ASSUMED to yield the allowed spans in order, each with the characters it covers (stub AllowedIter::next, covered by the generic `next` entry)',
    'external_body: correct_suffix_for': 'number_lint unit: an arbitrary total function (sp_correct); its correctness is the Kani full-domain harness number.suffix_full_domain',
    'assume_specification: char::len_utf16': 'std: 1 for code points below U+10000, otherwise 2',
    'assume_specification: std::option::Option::<&T>::copied': 'std: Option<&T>::copied copies the referent',
    'uninterp: sp_correct': 'what correct_suffix_for returns',
    'external_body: default': 'Lint::default is total; every field the rule relies on is overwritten',
    'external_body: clone': 'the derived Clone of Token returns an equal value',
    # --- opaque data / total predicates with NO postcondition ---
    'external_body: is_': 'TokenKind/char predicate used only as an arbitrary total bool',
    'external_body: to_string': 'only inside a panic! message that is proved unreachable',
    'external_body: to_lower': 'CharStringExt::to_lower: arbitrary Vec<char>',
    'external_body_struct:': 'opaque data type that plays no role in any proved clause',
    # --- Harper functions whose contract is ASSUMED in Verus (each is also listed per property
    #     under `assumptions`, with the bounded harness that checks it, if any) ---
    'external_body: remove_indices': 'callee contract in the callers\' units (modular verification); the body is verified against the same contract in unit vec_ext',
    'external_body: vec_retain_flags': 'desugaring R9: std Vec::retain keeps, in order, exactly the elements for which the closure returned true, calling it once per element in the original order (std documentation); used by unit vec_ext only',
    'external_body: axiom_char_slice_bytes': 'machine fact: an allocation is at most isize::MAX bytes and a char is 4 bytes, so a [char] has at most usize::MAX/8 elements (needed for `count * 2` in lex_tabs, len + 1 in lex_hostname)',
    'external_body: lex_hex_number': 'String / from_str_radix; Kani-bounded',
    'external_body: lex_number': 'str::parse::<f64>; not checked by anything',
    'external_body: lex_url': 'split/tuple_windows iterator code; Kani-bounded',
    'external_body: lex_email_address': 'iterator code; Kani-bounded',
    'external_body: lex_hostname_token': 'iterator code; Kani-bounded',
}
TRUSTED = list(TRUSTED_REASONS)
