"""Property -> engines. Obligation membership is by the `props` tag on each spliced contract."""
PROPS = {
    'C13': dict(
        level='proof',
        verus=['overlaps'],
        kani_quick=[], kani_thorough=[],
        rac=['remove_indices'],
        unverified=[], assumptions=[],
    ),
    'C15': dict(
        level='proof',
        verus=['edit_distance'],
        kani_quick=[], kani_thorough=[],
        unverified=[], assumptions=[],
    ),
    'C08': dict(
        level='model_checking',
        verus=[],
        kani_quick=['pos_conv.index_to_position_ref_3', 'pos_conv.roundtrip_inner_3', 'pos_conv.roundtrip_single_line_3',
                    'pos_conv.span_roundtrip_inner_3', 'pos_conv.roundtrip_final_line_3'],
        kani_thorough=['pos_conv.index_to_position_ref_3', 'pos_conv.roundtrip_inner_3', 'pos_conv.roundtrip_single_line_3',
                       'pos_conv.span_roundtrip_inner_3', 'pos_conv.roundtrip_final_line_3',
                       'pos_conv.index_to_position_ref_4', 'pos_conv.roundtrip_inner_4', 'pos_conv.roundtrip_single_line_4',
                       'pos_conv.span_roundtrip_inner_4', 'pos_conv.index_to_position_ref_5', 'pos_conv.roundtrip_inner_5'],
        unverified=[], assumptions=[],
    ),
    'C17': dict(
        level='proof',
        verus=['number'],
        kani_quick=['number.suffix_full_domain', 'number.from_chars_roundtrip'],
        unverified=[], assumptions=[],
    ),
    'C01': dict(
        level='proof',
        verus=['patterns', 'lexing', 'edit_distance'],
        kani_quick=['lexing.whitespace_5', 'jsdoc.parse_inline_tag_4', 'jsdoc.parse_inline_tag_5', 'jsdoc.mark_inline_tags_5'],
        kani_thorough=['lexing.whitespace_5', 'lexing.whitespace_8', 'lexing.hex_5', 'lexing.hostname_4', 'lexing.url_4', 'lexing.email_4',
                       'jsdoc.parse_inline_tag_4', 'jsdoc.parse_inline_tag_5', 'jsdoc.parse_inline_tag_6', 'jsdoc.mark_inline_tags_5'],
        unverified=[], assumptions=[],
    ),
    'C02': dict(
        level='proof',
        verus=['lexing', 'number'],
        kani_quick=['lexing.whitespace_5'],
        kani_thorough=['lexing.whitespace_5', 'lexing.whitespace_8', 'lexing.hex_5', 'lexing.hostname_4', 'lexing.url_4', 'lexing.email_4'],
        unverified=[], assumptions=[],
    ),
    'C03': dict(
        level='proof',
        verus=['suggestion'],
        kani_quick=[], kani_thorough=[],
        unverified=[
            'that each of the ~290 rules reports a span with start <= end <= text length (match_to_lint / lint bodies are not under contract)',
            'LintGroup::lint chunk-cache rebase call sites (LruCache, BTreeMap<String, Box<dyn Linter>>)',
            'Suggestion::replace_with_match_case (iter_mut().zip())',
        ],
        assumptions=[
            'Verus/Z3/rustc/vstd are correct; usize arithmetic modelled exactly (checked semantics), for 32- and 64-bit usize',
            'desugaring R1 (for (i,x) in e.iter().enumerate()) preserves meaning',
        ],
    ),
}
