"""Property -> engines. Obligation membership is by the `props` tag on each spliced contract
(Verus units) and by the harness lists below (Kani). `unverified` and `assumptions` are copied
into every evidence file of the property."""

GLOBAL_ASSUMPTIONS = [
    'Verus 0.2026.09.13 + bundled Z3, Kani 0.68 / CBMC 6.11, rustc and vstd (model of Vec, slices, Option, ranges, VecDeque) are correct',
    'usize/u8 arithmetic is modelled exactly with the checked (panic-on-overflow) semantics, which is the stricter one; Verus proves for every usize width unless a unit fixes size_of usize (overlaps: 8)',
    'the extraction drops only: comments, attributes (derive kept for Clone/Copy/PartialEq/Eq/Debug where listed), crate::/super::/self:: path prefixes, pub(..) restrictions; desugarings R1-R3, R5-R11 and the closure annotation are recorded per function under coverage.desugared',
    'no unsafe code is in any function under contract',
]

LEXER_BOUNDED = ('sub-lexers: lex_spaces / lex_tabs / lex_newlines (desugaring R7), lex_hostname (R10), lex_email_address (R11), lex_hostname_token, lex_url, lex_hostport (R19), validate_scheme and 13 URL scanner functions are PROVED (units lexing, url), lex_hex_number (R20; unit hex_number: a hit covers `0x` + hexadecimal digits only, 1 <= next_index <= |source|, radix 16; numeric value and where the literal stops (lexer policy) not specified); '
                 'still ASSUMED in Verus: found_ok for lex_number (String / str::parse::<f64>; CBMC: time-out even at length 2 - only the bounded runtime check rac:lexers exercises it), '
                 'validate_local_part (arbitrary total bool: termination / panic-freedom by rac:lexers only)')

PROPS = {
    'C01': dict(
        level='proof',
        verus=['span', 'patterns', 'lexing', 'url', 'hex_number', 'jsdoc', 'edit_distance', 'mask', 'mask_parser', 'document', 'vec_ext', 'comments', 'comments_doc', 'lhs_masker'],
        kani_quick=['lexing.whitespace_5', 'jsdoc.parse_inline_tag_4', 'jsdoc.parse_inline_tag_5'],
        rac=['lexers', 'lexer_literals', 'url_scanner', 'document_tiles', 'remove_indices', 'condense_indices', 'markdown_tokens', 'comment_frontends', 'lhs_frontend', 'typst_frontend', 'rule_spans', 'lint_group_cache'],
        kani_thorough=['lexing.whitespace_5', 'lexing.whitespace_8', 'lexing.hostname_4', 'lexing.url_4',
                       'jsdoc.parse_inline_tag_4', 'jsdoc.parse_inline_tag_5', 'jsdoc.parse_inline_tag_6'],
        unverified=[
            'every rule body (match_to_lint / lint of ~290 rules); LintGroup::lint, Document::parse as a whole and its pattern-based passes (contractions, ellipsis, latin), match_quotes, articles_imply_nouns: covered by the bounded RAC stand-ins only',
            'all front-ends that wrap an external parser: Markdown (pulldown-cmark), tree-sitter comment extraction, Typst, HTML, Literate Haskell (bounded stand-ins rac:markdown_tokens, comment_frontends, typst_frontend, lhs_frontend only; HTML and git commit: nothing), git commit parser, javadoc/go/unit comment parsers',
            'Pattern impls not under contract (assumed to satisfy the trait contract): AnyCapitalization, WordSet, ImpliesQuantity, IsNotTitleCase, SplitCompoundWord, TokenKindPatternGroup, WordPatternGroup, NaivePatternGroup, WithinEditDistance, the blanket impl for Fn(&Token,&[char])->bool',
            'polynomial running time (no cost model); only termination of the listed loops is proved',
            'WithinEditDistance::matches calls edit_distance_min_alloc without establishing len <= 254 (thread_local! closure: not extractable) -- defect D5, seen by reading, decided by no obligation',
        ],
        assumptions=[LEXER_BOUNDED,
                     'VecExt::remove_indices: body PROVED against its contract in unit vec_ext, modulo desugaring R9 (Vec::retain = one closure call per element, in order; survivors are the elements answered true)',
                     'Document passes: preconditions sum of whitespace counts <= usize::MAX and token count + 4 <= usize::MAX (machine assumptions)',
                     'jsdoc: parse_inline_tag (R6), mark_inline_tags (R8 over a sub-slice, closure annotation, A1 for the kind test) and parse_line (R16) are PROVED in unit jsdoc; parse_inline_tag is additionally run through bounded Kani harnesses (length <= 6)'],
    ),
    'C02': dict(
        level='proof',
        verus=['lexing', 'url', 'hex_number', 'number', 'mask', 'mask_parser', 'document', 'vec_ext', 'jsdoc', 'comments', 'comments_doc', 'lhs_masker'],
        kani_quick=['lexing.whitespace_5'],
        kani_thorough=['lexing.whitespace_5', 'lexing.whitespace_8', 'lexing.hostname_4', 'lexing.url_4'],
        rac=['lexers', 'lexer_literals', 'url_scanner', 'document_tiles', 'remove_indices', 'condense_indices', 'markdown_tokens'],
        unverified=[
            'tiling preservation is PROVED for condense_spaces, condense_dotted_initialisms, condense_number_suffixes, condense_indices (peekable() loop: desugaring R17) and, since fix D11, condense_newlines; match_quotes and newlines_to_breaks are PROVED (spans untouched, twins mutual); condense_contractions/ellipsis/latin (condense_pattern over thread_local patterns with an Fn(&mut Token) callback) and Document::parse as a whole are covered by the bounded stand-in rac:document_tiles only',
            'every front-end other than plain English (Markdown byte/char bookkeeping, Mask::parse, CollapseIdentifiers, IsolateEnglish, comment parsers, HTML, Typst, LHS, git commit)',
            'lexical shape of Word tokens (no whitespace inside) and the numeric value of Number tokens (lex_number: str::parse::<f64>)',
            'which Punctuation variant a punctuation token carries (Punctuation::from_char is verified panic-free only)',
        ],
        assumptions=[LEXER_BOUNDED],
    ),
    'C03': dict(
        level='proof',
        verus=['span', 'suggestion', 'patterns', 'number_lint'],
        kani_quick=[], kani_thorough=[],
        rac=['lint_group_cache', 'rule_spans'],
        unverified=[
            'that each of the ~290 rules reports a span with start <= end <= text length (match_to_lint / lint bodies are not under contract); run_on_chunk only guarantees them a non-empty in-bounds sub-slice of the chunk',
            'LintGroup::lint chunk-cache rebase call sites (LruCache, BTreeMap<String, Box<dyn Linter>>): only the pull/push arithmetic is proved (lemma_rebase, Span::pulled_by/pushed_by)',
        ],
        assumptions=['Vec::extend specification (assume_specification); desugaring R1'],
    ),
    'C08': dict(
        level='model_checking',
        verus=['pos_conv'],
        kani_quick=['pos_conv.index_to_position_ref_3', 'pos_conv.span_to_range_ref_3', 'pos_conv.roundtrip_inner_3', 'pos_conv.roundtrip_single_line_3',
                    'pos_conv.span_roundtrip_inner_3', 'pos_conv.roundtrip_final_line_3'],
        kani_thorough=['pos_conv.index_to_position_ref_3', 'pos_conv.span_to_range_ref_3', 'pos_conv.span_to_range_ref_4', 'pos_conv.roundtrip_inner_3', 'pos_conv.roundtrip_single_line_3',
                       'pos_conv.span_roundtrip_inner_3', 'pos_conv.roundtrip_final_line_3',
                       'pos_conv.index_to_position_ref_4', 'pos_conv.roundtrip_inner_4', 'pos_conv.roundtrip_single_line_4',
                       'pos_conv.span_roundtrip_inner_4', 'pos_conv.index_to_position_ref_5', 'pos_conv.roundtrip_inner_5'],
        rac=['lsp_glue'],
        unverified=[
            'PROVED (unit pos_conv, desugarings R1/R12/R13): index_to_position and span_to_range equal the reference for every text shorter than 2^31 characters; positions grow strictly with the index; position_to_index / range_to_span invert them for every index on an LF-terminated line or in a text without LF. NOT covered by the proof: the final line of a text that contains LF (known finding D4: the function is wrong there)',
            'lint_to_code_actions / generate_code_actions (Url, HashMap, serde_json, Document): TextEdit construction and code-action lookup are not under contract',
            'texts longer than the bound, characters outside the 8-symbol alphabet',
        ],
        assumptions=['Kani results are for a 64-bit target; alphabet {LF, CR, a, U+4E2D, U+1F600, U+0301, U+200B, U+010A} represents the UTF-16 width classes 1 and 2 and the only character pos_conv treats specially (LF)'],
    ),
    'C13': dict(
        level='proof',
        verus=['overlaps', 'overlaps32', 'vec_ext'],
        kani_quick=[], kani_thorough=[],
        rac=['remove_indices', 'remove_overlaps', 'currency_conflict_free', 'wasm_api'],
        unverified=[
            'callers in harper-wasm / harper-cli / currency_placement.rs and that lints handed to remove_overlaps have start <= end (the precondition)',
        ],
        assumptions=['<[T]>::sort_by_key returns a permutation sorted by the closure key (assume_specification); lexicographic Ord on (usize, usize); the unit is verified twice, with size_of usize == 8 and == 4 (wasm32), because `!0 == usize::MAX` is a bit-vector fact',
                     'desugaring R1 and the closure annotation of the sort key closure',
                     'VecExt::remove_indices: its body is PROVED against the contract remove_overlaps relies on (unit vec_ext), modulo desugaring R9: the call self.retain(closure) is replaced by the documented behaviour of Vec::retain (closure body run once per element, in order; exactly the elements answered true remain) - trusted stand-in vec_retain_flags'],
    ),
    'C15': dict(
        level='proof',
        verus=['edit_distance', 'merged_dictionary'],
        kani_quick=[], kani_thorough=[],
        rac=['fuzzy_backends', 'merged_union', 'edit_distance_long'],
        unverified=[
            'agreement of the FST and mutable back-ends; MergedDictionary *_str variants (contains_exact_word_str delegates to contains_word: visible by reading, not decided), fuzzy_match merging, words_iter, word_count, get_word_from_id; fuzzy-search completeness, ordering and caps (fst / levenshtein_automata / hashbrown / itertools code)',
            'strings longer than 254 chars: edit_distance_min_alloc is proved only under that precondition; at 255 its u8 rows overflow, above 255 it indexes out of bounds (D5); call sites (MutableDictionary::fuzzy_match, WithinEditDistance::matches) are not under contract',
        ],
        assumptions=['Vec::extend over RangeInclusive<u8> (vstd iterator model + ext_seq axiom)'],
    ),
    'C17': dict(
        level='proof',
        verus=['number', 'number_lint', 'document'],
        kani_quick=['number.suffix_full_domain', 'number.from_chars_roundtrip'],
        kani_thorough=['number.suffix_full_domain', 'number.from_chars_roundtrip'],
        rac=['number_suffix_rule', 'c17_possessive', 'c17_bracketed'],
        unverified=[
            'lex_number (decimal text -> f64 via str::parse, trusted std; exact for integers < 2^53 by IEEE-754)',
            'condense_number_suffixes (merging <number><suffix-word>) and CorrectNumberSuffix::lint iteration (paste!-generated iter_numbers); "after which nothing is reported" (needs re-lexing)',
        ],
        assumptions=['Kani: 64-bit target, IEEE-754 floats as modelled by CBMC; solver kissat for the 2^53 harness'],
    ),
    # ---- properties whose contract is expressible but whose code no verifier here reaches: BOUNDED runtime checks of
    # the function contract only (level exploration); nothing below counts as proved ----
    'C11': dict(
        level='exploration', verus=[], kani_quick=[], kani_thorough=[],
        rac=['rule_switches', 'wasm_api'],
        unverified=[
            'BOUNDED ONLY, nothing proved: LintGroupConfig is a BTreeMap<String, Option<bool>> (vstd has no ordering axioms for String; a two-key Kani harness of merge_from ran CBMC out of memory after 23 min - measured), LintGroup::lint iterates BTreeMap<String, Box<dyn Linter>> and an LruCache',
            'the harper-ls call site that wraps lint with a temporary fill_with_curated (generate_diagnostics) and Config::from_lsp_config; the harper-wasm call site is exercised by one scripted sequence only (rac:wasm_api clause e)',
            'texts outside the sampled rule-test sentences; configurations beyond the stated enumeration',
        ],
        assumptions=['lint lists are compared as multisets of Debug renderings (the property speaks of "the combination", not of an order)'],
    ),
    'C14': dict(
        level='exploration', verus=[], kani_quick=[], kani_thorough=[],
        rac=['ignored_lints', 'wasm_api'],
        unverified=[
            'BOUNDED ONLY, nothing proved: the contract of ignore_lint / is_ignored / remove_ignored rests on DefaultHasher over a derived Hash (collision-freedom cannot be a theorem), hashbrown and Vec::retain',
            'the language-server command and the harper-wasm export/import wrappers; edits other than inserting a paragraph before / appending one after the text',
        ],
        assumptions=['"differs in message, kind, suggestions or surrounding words" is read as: a lint hidden together with the ignored one must agree with it in kind, message, suggestions and flagged text'],
    ),
    'C04': dict(
        level='exploration',
        verus=['mask', 'mask_parser', 'jsdoc', 'comments', 'comments_doc', 'lhs_masker'], kani_quick=[], kani_thorough=[],
        rac=['prose_offsets', 'lhs_prose_offsets', 'html_prose_offsets', 'typst_prose_offsets', 'c04_fixed_files', 'c04_jsdoc_fence', 'c04_tilde_fence', 'c04_go_directive', 'c04_javadoc_pre', 'c04_javadoc_return'],
        unverified=[
            'BOUNDED ONLY: tree-sitter node selection + byte_spans_to_char_spans (str byte code), the Markdown byte/char bookkeeping, without_initiators (which characters count as comment markers); PROVED are the composition steps: parsers::Mask<M,P>::parse (tokens shifted into their chunk, in order, nothing outside the allowed spans emitted as text - given the Masker and inner-Parser contracts), the mask operations push_allowed / merge_whitespace_sep, and the line-based comment parsers Unit / Go / JsDoc / JavaDoc::parse + unit::parse_line + jsdoc::parse_line / mark_inline_tags (every line\'s tokens moved behind its comment markers and to the line\'s offset; result in bounds and ordered - given the inner-Parser contract; for unit::parse_line and Unit::parse additionally the EXACT result: the inner parser\'s tokens of each line, moved by the marker width plus the line offset, a Newline token per LF, nothing from fenced lines)',
            'the git-commit front-end and the other 15 tree-sitter languages are not in the prose-offset checks; for Typst only the declared prose words are demanded (strings handed to functions may or may not be prose), not exactness',
            'files beyond the segment grammar of the check (3 of <=14 segments per language)',
        ],
        assumptions=['the ground truth is known by construction of the generated files (segments with declared prose words), not from a second parser',
                     'adjacent comments separated only by white space are one comment block (merge_whitespace_sep), so an ignore marker drops the whole block: the marker segment is fenced by code'],
    ),
    'C06': dict(
        level='exploration', verus=[], kani_quick=[], kani_thorough=[],
        rac=['spell_check', 'wasm_api'],
        unverified=[
            'BOUNDED ONLY, nothing proved: a statement about ~130k data-derived entries reached through 64-bit hash ids, hashbrown and an FST',
            'entries the plain-English lexer does not read as one Word token (hyphenated, dotted, with digits or apostrophes handled by condensing passes) are outside the check; dialects other than American and British; random sentence positions (one fixed carrier sentence); the quick tier visits every 4th entry per dialect, the thorough tier all',
            'suggestion quality (only membership and dialect of each suggestion are checked, on every 40th entry mutated)',
        ],
        assumptions=['Dictionary::words_iter of FstDictionary::curated() is the ground-truth word list (as the property says)'],
    ),
    'C12': dict(
        level='exploration', verus=[], kani_quick=[], kani_thorough=[],
        rac=['paragraph_independence'],
        unverified=[
            'BOUNDED ONLY, nothing proved: relational two-run contract of the entire parse + rule pipeline (~290 rule bodies)',
            'first paragraphs and continuations other than the sampled rule-test sentences; front-ends other than plain English; first paragraphs spanning several lines',
        ],
        assumptions=['lint lists are compared as multisets of Debug renderings after shifting'],
    ),
    'C16': dict(
        level='exploration', verus=[], kani_quick=[], kani_thorough=[],
        rac=['wasm_api'],
        unverified=[
            'BOUNDED ONLY, nothing proved: histories over the wasm_bindgen object; its decidable kernels Suggestion::apply (C03) and remove_overlaps (C13) are proved under those properties',
            'call sequences other than the scripted ones (lint -> apply_suggestion* -> ignore -> export/clear/import per text; one words sequence; one configuration sequence); dialects other than American; the JsValue-based methods (summarize_stats, *_as_object) cannot run natively',
        ],
        assumptions=['harper-wasm is compiled natively as an rlib (as the property says); Lint equality is equality of to_json()'],
    ),
    'C18': dict(
        level='exploration', verus=[], kani_quick=[], kani_thorough=[],
        rac=['title_case', 'wasm_api'],
        unverified=[
            'BOUNDED ONLY, nothing proved: make_title_case is peekable()/enumerate()/iter_mut() code over a parsed Document and dictionary data (canonical capitalisation looked up by 64-bit hash)',
            'whole texts through front-ends other than plain English (the Markdown front-end drops markup, so "same length" is demanded of the token span only: clause e); harper-wasm to_title_case on six texts only; the IsNotTitleCase pattern itself (its calls of make_title_case on token sub-slices are covered by clause e)',
        ],
        assumptions=['curated dictionary; single-paragraph texts as in the property quantifier'],
    ),
    'C19': dict(
        level='exploration', verus=[], kani_quick=[], kani_thorough=[],
        rac=['stats_roundtrip', 'wasm_api'],
        unverified=[
            'BOUNDED ONLY, nothing proved: the log format is serde_json (derived Serialize/Deserialize) + BufRead::lines, both external to Harper; Summary counts live in std HashMap',
            'the append-mode file handling in harper-ls save_stats and harper-wasm import_stats_file; misspelled-word tallies and final_config of the summary (not part of the property statement)',
        ],
        assumptions=['records are compared with the derived PartialEq (floats bitwise through OrderedFloat)'],
    ),
}
for _p in PROPS.values():
    _p['assumptions'] = list(_p.get('assumptions', [])) + GLOBAL_ASSUMPTIONS
