"""Property -> engines. Obligation membership is by the `props` tag on each spliced contract."""
PROPS = {
    'C01': dict(
        level='proof',
        verus=['patterns', 'lexing'],
        kani_quick=[], kani_thorough=[],
        unverified=[], assumptions=[],
    ),
    'C02': dict(
        level='proof',
        verus=['lexing'],
        kani_quick=[], kani_thorough=[],
        unverified=[], assumptions=[],
    ),
    'C03': dict(
        level='proof',
        verus=['suggestion'],
        kani_quick=[], kani_thorough=[],
        unverified=[
            'that each of the ~290 rules reports a span with start <= end <= text length (match_to_lint / lint bodies are not under contract)',
            'LintGroup::lint chunk-cache rebase call sites (LruCache, BTreeMap<String, Box<dyn Linter>>)',
            'Suggestion::replace_with_match_case (iter_mut().zip())',
        ],
        assumptions=[
            'Verus/Z3/rustc/vstd are correct; usize arithmetic modelled exactly (checked semantics), for 32- and 64-bit usize',
            'desugaring R1 (for (i,x) in e.iter().enumerate()) preserves meaning',
        ],
    ),
}
