// Runtime contract check of the Literate Haskell front-end (attached to harper-literate-haskell/src/lib.rs).
// BOUNDED stand-in (line-based str/char bookkeeping, outside both verifiers): for every concatenation of up to 5
// fragments mixing prose, bird-track code, \begin{code} blocks, empty lines and whitespace-only lines made of
// multi-byte blanks (U+3000, NBSP), building the document does not panic and every covering token lies inside the
// file, in increasing non-overlapping order.
use harper_core::{Document, TokenKind};

// progress watchdog (C01: never hangs): every input takes milliseconds; an input that is still being
// processed after 20 s is reported as non-terminating and the test process is ended
#[allow(dead_code)]
fn rac_watchdog(name: &'static str) -> std::sync::Arc<std::sync::Mutex<Option<(u64, String)>>> {
    let cur = std::sync::Arc::new(std::sync::Mutex::new(None::<(u64, String)>));
    let c2 = cur.clone();
    std::thread::spawn(move || {
        let mut last: Option<(u64, String)> = None;
        let mut since = std::time::Instant::now();
        loop {
            std::thread::sleep(std::time::Duration::from_secs(1));
            let c = c2.lock().unwrap().clone();
            if c != last {
                last = c;
                since = std::time::Instant::now();
            } else if last.is_some() && since.elapsed().as_secs() >= 20 {
                println!("RAC-CEX {} {{\"text\": {:?}, \"why\": \"did not terminate within 20 s (other inputs take milliseconds)\"}}", name, last.unwrap().1);
                std::process::exit(1);
            }
        }
    });
    cur
}

#[test]
fn rac_lhs_frontend() {
    let wd = rac_watchdog("lhs_frontend");
    let frags = ["Some introduction é.\n", "\n", "> main = print 1\n", "\u{3000}\n", "\u{00A0} \n", "\\begin{code}\nx = 1\n\\end{code}\n", "The closing words are here.\n", ">\n", " \n", "> é = 2"];
    let mut texts: Vec<String> = vec![String::new()];
    let mut frontier: Vec<String> = vec![String::new()];
    for _ in 0..5 {
        let mut next = vec![];
        for t in &frontier {
            for f in frags.iter() {
                next.push(format!("{}{}", t, f));
            }
        }
        texts.extend(next.iter().cloned());
        frontier = next;
    }
    let parser = LiterateHaskellParser::new_markdown(MarkdownOptions::default());
    let mut cases = 0u64;
    let mut nontrivial = 0u64;
    for t in &texts {
        *wd.lock().unwrap() = Some((cases, t.clone()));
        let n = t.chars().count();
        let r = std::panic::catch_unwind(std::panic::AssertUnwindSafe(|| {
            let doc = Document::new_curated(t, &parser);
            doc.get_tokens().iter().map(|t| (t.span.start, t.span.end, matches!(t.kind, TokenKind::ParagraphBreak | TokenKind::Newline(_)))).collect::<Vec<_>>()
        }));
        cases += 1;
        let mut bad: Option<String> = None;
        match &r {
            Err(_) => bad = Some("panicked".to_string()),
            Ok(toks) => {
                let mut cur = 0usize;
                for (i, (s, e, brk)) in toks.iter().enumerate() {
                    if s > e || *e > n { bad = Some(format!("token #{} [{}, {}) is outside the file of {} chars", i, s, e, n)); break; }
                    if s < e {
                        if *s < cur { bad = Some(format!("token #{} [{}, {}) overlaps or precedes the previous covering token ending at {}", i, s, e, cur)); break; }
                        cur = *e;
                    } else if !brk { bad = Some(format!("zero-width non-break token #{}", i)); break; }
                }
                if toks.len() > 2 { nontrivial += 1; }
            }
        }
        if let Some(why) = bad {
            println!("RAC-CEX lhs_frontend {{\"text\": {:?}, \"why\": {:?}}}", t, why);
            panic!("literate haskell front-end contract violated");
        }
    }
    *wd.lock().unwrap() = None;
    println!("RAC-OK lhs_frontend cases={} nontrivial={} bound=<=5-of-10-fragments", cases, nontrivial);
}
