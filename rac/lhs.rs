// Runtime contract check of the Literate Haskell front-end (attached to harper-literate-haskell/src/lib.rs).
// BOUNDED stand-in (line-based str/char bookkeeping, outside both verifiers): for every concatenation of up to 5
// fragments mixing prose, bird-track code, \begin{code} blocks, empty lines and whitespace-only lines made of
// multi-byte blanks (U+3000, NBSP), building the document does not panic and every covering token lies inside the
// file, in increasing non-overlapping order.
use harper_core::{Document, TokenKind};

// progress watchdog (C01: never hangs): every input takes milliseconds; an input that is still being
// processed after 20 s is reported as non-terminating and the test process is ended
#[allow(dead_code)]
fn rac_watchdog(name: &'static str) -> std::sync::Arc<std::sync::Mutex<Option<(u64, String)>>> {
    let cur = std::sync::Arc::new(std::sync::Mutex::new(None::<(u64, String)>));
    let c2 = cur.clone();
    std::thread::spawn(move || {
        let mut last: Option<(u64, String)> = None;
        let mut since = std::time::Instant::now();
        loop {
            std::thread::sleep(std::time::Duration::from_secs(1));
            let c = c2.lock().unwrap().clone();
            if c != last {
                last = c;
                since = std::time::Instant::now();
            } else if last.is_some() && since.elapsed().as_secs() >= 20 {
                println!("RAC-CEX {} {{\"text\": {:?}, \"why\": \"did not terminate within 20 s (other inputs take milliseconds)\"}}", name, last.unwrap().1);
                std::process::exit(1);
            }
        }
    });
    cur
}

#[test]
fn rac_lhs_frontend() {
    let wd = rac_watchdog("lhs_frontend");
    let frags = ["Some introduction é.\n", "\n", "> main = print 1\n", "\u{3000}\n", "\u{00A0} \n", "\\begin{code}\nx = 1\n\\end{code}\n", "The closing words are here.\n", ">\n", " \n", "> é = 2"];
    let mut texts: Vec<String> = vec![String::new()];
    let mut frontier: Vec<String> = vec![String::new()];
    for _ in 0..5 {
        let mut next = vec![];
        for t in &frontier {
            for f in frags.iter() {
                next.push(format!("{}{}", t, f));
            }
        }
        texts.extend(next.iter().cloned());
        frontier = next;
    }
    let parser = LiterateHaskellParser::new_markdown(MarkdownOptions::default());
    let mut cases = 0u64;
    let mut nontrivial = 0u64;
    for t in &texts {
        *wd.lock().unwrap() = Some((cases, t.clone()));
        let n = t.chars().count();
        let r = std::panic::catch_unwind(std::panic::AssertUnwindSafe(|| {
            let doc = Document::new_curated(t, &parser);
            doc.get_tokens().iter().map(|t| (t.span.start, t.span.end, matches!(t.kind, TokenKind::ParagraphBreak | TokenKind::Newline(_)))).collect::<Vec<_>>()
        }));
        cases += 1;
        let mut bad: Option<String> = None;
        match &r {
            Err(_) => bad = Some("panicked".to_string()),
            Ok(toks) => {
                let mut cur = 0usize;
                for (i, (s, e, brk)) in toks.iter().enumerate() {
                    if s > e || *e > n { bad = Some(format!("token #{} [{}, {}) is outside the file of {} chars", i, s, e, n)); break; }
                    if s < e {
                        if *s < cur { bad = Some(format!("token #{} [{}, {}) overlaps or precedes the previous covering token ending at {}", i, s, e, cur)); break; }
                        cur = *e;
                    } else if !brk { bad = Some(format!("zero-width non-break token #{}", i)); break; }
                }
                if toks.len() > 2 { nontrivial += 1; }
            }
        }
        if let Some(why) = bad {
            println!("RAC-CEX lhs_frontend {{\"text\": {:?}, \"why\": {:?}}}", t, why);
            panic!("literate haskell front-end contract violated");
        }
    }
    *wd.lock().unwrap() = None;
    println!("RAC-OK lhs_frontend cases={} nontrivial={} bound=<=5-of-10-fragments", cases, nontrivial);
}

// Prose words at their true offsets (C04) for Literate Haskell: files assembled from segments with declared prose words
// (text lines with multi-byte characters, bird-track code fenced by blank lines as the format demands, \begin{code}
// blocks, blank lines in front of and between chunks); the Word tokens are exactly the declared words at their declared character offsets.
#[test]
fn rac_lhs_prose_offsets() {
    let segs: [(&str, &[&str]); 12] = [
        ("Alpha beta\n", &["Alpha", "beta"]),
        ("\n", &[]),
        ("\n> main = print \"strïng 😀\"\n\n", &[]),
        ("\\begin{code}\nmain :: IO ()\nx = \"wörd\"\n\\end{code}\n", &[]),
        ("Gamma é😀 delta\n", &["Gamma", "é", "delta"]),
        ("\n\n", &[]),
        ("The naïve closing words.\n", &["The", "naïve", "closing", "words"]),
        ("\n> y = 2\n> z = \"wörd\"\n\n", &[]),
        ("  indented prose here\n", &["indented", "prose", "here"]),
        // fence lines with trailing blanks / CR, and a bird block closed by a line that holds only blanks
        ("\\begin{code}  \nq = 1\n\\end{code} \n", &[]),
        ("\\begin{code}\r\nq = \"wörd\"\r\n\\end{code}\r\n", &[]),
        ("\n> w = 3\n   \n", &[]),
    ];
    let parser = LiterateHaskellParser::new_markdown(MarkdownOptions::default());
    let mut combos: Vec<Vec<usize>> = vec![vec![]];
    let mut frontier: Vec<Vec<usize>> = vec![vec![]];
    for _ in 0..4 {
        let mut next = vec![];
        for c in &frontier { for i in 0..segs.len() { let mut d = c.clone(); d.push(i); next.push(d); } }
        combos.extend(next.iter().cloned());
        frontier = next;
    }
    let mut cases = 0u64;
    let mut nontrivial = 0u64;
    for c in &combos {
        let mut text = String::new();
        let mut want: Vec<(usize, usize, String)> = vec![];
        for i in c {
            let base = text.chars().count();
            let chars: Vec<char> = segs[*i].0.chars().collect();
            let mut from = 0usize;
            for w in segs[*i].1 {
                let wc: Vec<char> = w.chars().collect();
                let pos = (from..=chars.len() - wc.len()).find(|&k| chars[k..k + wc.len()] == wc[..]).unwrap();
                want.push((base + pos, base + pos + wc.len(), w.to_string()));
                from = pos + wc.len();
            }
            text.push_str(segs[*i].0);
        }
        cases += 1;
        let src: Vec<char> = text.chars().collect();
        let r = std::panic::catch_unwind(std::panic::AssertUnwindSafe(|| {
            let doc = Document::new_curated(&text, &parser);
            doc.get_tokens().iter().filter(|t| matches!(t.kind, TokenKind::Word(_)))
                .map(|t| (t.span.start, t.span.end, src.get(t.span.start..t.span.end).map(|s| s.iter().collect::<String>()).unwrap_or_else(|| "<outside the file>".to_string())))
                .collect::<Vec<_>>()
        }));
        match r {
            Err(_) => { println!("RAC-CEX lhs_prose_offsets {{\"text\": {:?}, \"why\": \"panicked\"}}", text); panic!("prose-offset contract violated"); }
            Ok(got) => {
                if got != want {
                    let missing: Vec<_> = want.iter().filter(|w| !got.contains(w)).take(3).collect();
                    let extra: Vec<_> = got.iter().filter(|g| !want.contains(g)).take(3).collect();
                    println!("RAC-CEX lhs_prose_offsets {{\"text\": {:?}, \"why\": \"the word tokens are not exactly the prose words at their offsets\", \"prose_words_missing\": {:?}, \"unexpected_words\": {:?}}}", text, missing, extra);
                    panic!("prose-offset contract violated");
                }
                if !want.is_empty() { nontrivial += 1; }
            }
        }
    }
    // whole files whose shape the segment grammar cannot produce (D19: a blank line inside a \\begin{code} environment; D20: a
    // bird-track block that opens the file): the word tokens must be exactly the listed prose words, in order
    let fixed: [(&str, &[&str]); 4] = [
        ("Intro text.\n\n\\begin{code}\nmain :: IO ()\n\nmain = print 1\n\\end{code}\n\nMore prose here.\n", &["Intro", "text", "More", "prose", "here"]),
        ("> main = print 1\n\nMore prose here.\n", &["More", "prose", "here"]),
        ("> main = print 1\n> other = 2\n", &[]),
        ("\\begin{code}\nalpha = 1\n\n\nbeta = 2\n\\end{code}\nClosing words.\n", &["Closing", "words"]),
    ];
    for (text, want) in fixed.iter() {
        cases += 1;
        let r = std::panic::catch_unwind(std::panic::AssertUnwindSafe(|| {
            let doc = Document::new_curated(text, &parser);
            doc.get_tokens().iter().filter(|t| matches!(t.kind, TokenKind::Word(_))).map(|t| doc.get_span_content_str(&t.span)).collect::<Vec<_>>()
        }));
        let ok = matches!(&r, Ok(got) if got.iter().map(|s| s.as_str()).collect::<Vec<_>>() == want.to_vec());
        if !ok {
            println!("RAC-CEX lhs_prose_offsets {{\"text\": {:?}, \"why\": \"the word tokens are not exactly the prose words\", \"want\": {:?}, \"got\": {:?}}}", text, want, r.ok());
            panic!("prose-offset contract violated");
        }
        nontrivial += 1;
    }
    println!("RAC-SAMPLE lhs_prose_offsets {{\"file\": {:?}, \"prose_words\": [\"Alpha\", \"beta\", \"Gamma\", \"é\", \"delta\"]}}", "Alpha beta\n> y = 2\n\nGamma é😀 delta\n");
    println!("RAC-OK lhs_prose_offsets cases={} nontrivial={} bound=<=4-of-12-segments-with-known-prose-words", cases, nontrivial);
}
