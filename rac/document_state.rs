// Runtime contract check of the LSP glue (attached to harper-ls/src/document_state.rs). BOUNDED stand-in
// for the parts of C08 outside pos_conv (Url / HashMap / serde_json / LintGroup are outside both verifiers):
// for 24 texts (astral and combining characters, tabs, LF and CRLF line ends, with and without a trailing
// newline, lints on the first / a middle line) and every lint they produce:
//   (1) the diagnostic range equals the reference LSP positions (line = LF count, column = UTF-16 units)
//       of the lint's character span;
//   (2) a code-action request at every cursor position inside the diagnostic range (and for the full
//       range) returns that lint's quick fixes;
//   (3) applying a returned TextEdit the way an LSP client does (UTF-16 columns) yields exactly the text
//       that Suggestion::apply yields on the lint's span.
// Lints on the final line of a multi-line text are checked for (1) only: requests there run into the
// known finding D4 (position_to_index on the final line), which the Kani harnesses report.
use harper_core::linting::Suggestion;
use harper_core::{Dialect, FstDictionary};
use tower_lsp::lsp_types::Position;

fn rac_pos(src: &[char], i: usize) -> Position {
    let mut line = 0u32;
    let mut col = 0u32;
    for c in &src[..i] {
        if *c == '\n' { line += 1; col = 0; } else { col += c.len_utf16() as u32; }
    }
    Position { line, character: col }
}

// what an LSP client does: resolve (line, UTF-16 column) against its own copy of the text
fn rac_client_index(src: &[char], p: Position) -> usize {
    let mut line = 0u32;
    let mut i = 0usize;
    while line < p.line && i < src.len() { if src[i] == '\n' { line += 1; } i += 1; }
    let mut col = 0u32;
    while i < src.len() && src[i] != '\n' && col < p.character { col += src[i].len_utf16() as u32; i += 1; }
    i
}

#[test]
fn rac_lsp_glue() {
    let texts = [
        "This is an test.\nSecond line is fine.\n",
        "😀😀 This is an test of of things.\nnext\n",
        "First line.\n\tThere is an test here, e\u{0301}h.\nlast\n",
        "Ths  is mispelled 😀 word.\r\nAnd an test.\r\nend\r\n",
        "a\n\nIt could of been 21th.\nz\n",
        "One one two.\n",
        "An test",
        "𝒳 an test and an apple, an test.\nmore\n",
        "There is is a problem.\nThere is an problem.\nok\n",
        "the the\n",
        "She could of went 😀, and and so on.\nx\n",
        "Tab\tan test\there.\nfin\n",
        "It's 1th, 2th and 3th.\nend\n",
        "\n\nAn test after blank lines.\n.\n",
        "I like apples, oranges and bananas.\nnext\n",
        "All fine here.\nthe the cat sat.\nend\n",
        "Fine.\nspeling is hard.\nx\n",
        "“中文” — this is an test, mispelled too.\nend\n",
        "😀 ok\r\nShe bought milk, eggs and bread 😀 today.\r\nend\r\n",
        // a lint that ends on the very last character of a file without a trailing line break
        "This is a tset",
        "Fine 😀 text with a tset",
        // Markdown (texts starting with "md:"): a lint that spans markup characters which belong to no token
        "md:I saw the *the* cat.\nnext\n",
        "md:> I saw the\n> the cat.\nend\n",
        "md:An `x` test and teh **teh** end.\nnext\n",
        // suggestions that differ from the flagged text by one doubled / dropped letter (a minimal-edit computation must not cross its own prefix)
        "My adress changed, it occured twice.\nThe begining was hard, the comitee agreed.\nend\n",
        "A realy good book, untill the end.\nnext\n",
        // zero-width and other invisible characters before a lint; a character whose low byte is 0x0A
        "\u{FEFF}zero\u{200B}width an test, 👩\u{200D}💻 an test.\n\u{010A}\u{300A}x《 an test here.\nend\n",
        // a lint whose span contains a line break (a word repeated across a hard-wrapped line)
        "This is the\nthe test.\nend\n",
    ];
    let cfg = CodeActionConfig { force_stable: false };
    let mut cases = 0u64;
    let mut nontrivial = 0u64;
    let mut seen_insert_after = false;
    for text in texts.iter() {
        let (markdown, text) = match text.strip_prefix("md:") { Some(t) => (true, t), None => (false, *text) };
        let text = &text;
        let src: Vec<char> = text.chars().collect();
        let mut st = DocumentState::default();
        st.document = if markdown { Document::new_markdown_default_curated(text) } else { Document::new_plain_english_curated(text) };
        st.linter = LintGroup::new_curated(FstDictionary::curated(), Dialect::American);
        let mut lints = {
            let temp = st.linter.config.clone();
            st.linter.config.fill_with_curated();
            let mut l = st.linter.lint(&st.document);
            st.linter.config = temp;
            l.sort_by_key(|l| (l.span.start, l.span.end));
            l
        };
        let diags = st.generate_diagnostics(DiagnosticSeverity::Hint);
        let last_line = src.iter().filter(|c| **c == '\n').count() as u32;
        for lint in lints.drain(..) {
            cases += 1;
            let want = tower_lsp::lsp_types::Range { start: rac_pos(&src, lint.span.start), end: rac_pos(&src, lint.span.end) };
            // (1)
            if !diags.iter().any(|d| d.range == want && d.message == lint.message) {
                println!("RAC-CEX lsp_glue {{\"text\": {:?}, \"why\": \"no diagnostic with range {:?} for lint [{}, {}) '{}'\"}}", text, want, lint.span.start, lint.span.end, lint.message);
                panic!("diagnostic range wrong");
            }
            let multi = last_line > 0;
            if multi && (want.start.line == last_line || want.end.line == last_line) { continue; }
            // (2) every cursor position inside the range, and the full range
            let mut requests = vec![want];
            for i in lint.span.start..lint.span.end { let p = rac_pos(&src, i); requests.push(tower_lsp::lsp_types::Range { start: p, end: p }); }
            for req in requests {
                let actions = st.generate_code_actions(req, &cfg);
                for sug in lint.suggestions.iter() {
                    nontrivial += 1;
                    if matches!(sug, Suggestion::InsertAfter(_)) { seen_insert_after = true; }
                    let mut expect = src.clone();
                    sug.apply(lint.span, &mut expect);
                    let title = sug.to_string();
                    let mut found = false;
                    for a in actions.iter() {
                        if let CodeActionOrCommand::CodeAction(ca) = a {
                            if ca.title != title { continue; }
                            let Some(edit) = ca.edit.as_ref().and_then(|e| e.changes.as_ref()).and_then(|c| c.values().next()).and_then(|v| v.first()) else { continue; };
                            // (any range/new_text pair is fine as long as the client-side result is right)
                            // (3) apply like a client
                            let s = rac_client_index(&src, edit.range.start);
                            let e = rac_client_index(&src, edit.range.end);
                            // LSP: "the end position of a range must not precede its start"; a client need not accept such an edit
                            if (edit.range.end.line, edit.range.end.character) < (edit.range.start.line, edit.range.start.character) || s > e { continue; }
                            let mut got: Vec<char> = src[..s].to_vec();
                            got.extend(edit.new_text.chars());
                            got.extend_from_slice(&src[e..]);
                            if got == expect { found = true; break; }
                        }
                    }
                    if !found {
                        println!("RAC-CEX lsp_glue {{\"text\": {:?}, \"why\": \"request {:?}: no code action applies suggestion {:?} of lint [{}, {}) correctly\"}}", text, req, title, lint.span.start, lint.span.end);
                        panic!("code action missing or wrong");
                    }
                }
            }
        }
    }
    if !seen_insert_after { println!("RAC-CEX lsp_glue {{\"why\": \"vacuity guard: no InsertAfter suggestion was exercised\"}}"); panic!("vacuous"); }
    println!("RAC-OK lsp_glue cases={} nontrivial={} bound=28-texts,every-lint,every-cursor-position", cases, nontrivial);
}
