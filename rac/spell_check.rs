// Runtime contract check of the spell-check rule (attached to harper-core/src/linting/spell_check.rs).
// BOUNDED stand-in for C06 (a statement about ~130k data-derived entries behind 64-bit hashes and an FST;
// no verifier reaches it). Contract of SpellCheck::lint against Dictionary::words_iter as ground truth, for
// the American and the British dialect:
//  (a) for every curated entry w (thorough tier; the quick tier takes every 4th entry, offset by the dialect) that the plain-English lexer reads as one Word token and whose
//      dialect tag is absent or the active one: w alone, w inside the sentence "We saw <w> today.", w as the last word
//      of a sentence ("We saw <w>. Then we left.", "We saw <w>."), and - when
//      w is all lower-case - Capitalised(w) and UPPER(w) produce no spelling lint on w;
//  (b) for every 40th entry (quick tier: every 400th), mutated into a letter string the dictionary does not contain under any
//      capitalisation: exactly one spelling lint, covering exactly the word, alone and inside the sentence;
//      every suggestion is (up to its capitalised first letter) a dictionary word of the active dialect;
//  (c) every 7th entry tagged with ANOTHER dialect, one letter deleted, looked up twice by the same rule instance:
//      all suggestions belong to the active dialect both times;
//  (d) every 5th entry tagged with another dialect only: listed, Capitalised and UPPER form are each reported.
use crate::FstDictionary;

#[test]
fn rac_spell_check() {
    let dict = FstDictionary::curated();
    let words: Vec<Vec<char>> = dict.words_iter().map(|w| w.to_vec()).collect();
    let mut cases = 0u64;
    let mut nontrivial = 0u64;
    let mut sampled = false;
    for dialect in [Dialect::American, Dialect::British] {
        let mut rule = SpellCheck::new(dict.clone(), dialect);
        let thorough = std::env::var("VERIF_RAC_TIER").as_deref() == Ok("thorough");
        for (wi, w) in words.iter().enumerate() {
            let mutate_every = if thorough { 40 } else { 400 };
            if !thorough && wi % 4 != (dialect as usize) % 4 && wi % mutate_every != 0 { continue; }
            let text: String = w.iter().collect();
            let doc = Document::new_plain_english(&text, &dict);
            let toks = doc.get_tokens();
            // only entries the lexer reads as a single word token are in scope of this check
            if toks.len() != 1 || !toks[0].kind.is_word() || toks[0].span.len() != w.len() { continue; }
            let meta = dict.get_word_metadata(w);
            let in_dialect = meta.map_or(false, |m| m.dialect.is_none_or(|d| d == dialect));
            if in_dialect {
                cases += 1;
                let lower = w.iter().all(|c| !c.is_uppercase());
                // alone, inside a sentence, and as the last word of a sentence (the full stop must not be glued to it)
                let mut forms: Vec<String> = vec![text.clone(), format!("We saw {} today.", text)];
                // (entries that end in a period themselves, like "etc.", would make a double full stop here)
                if w.iter().all(|c| c.is_alphanumeric()) {
                    forms.push(format!("We saw {}. Then we left.", text));
                    forms.push(format!("We saw {}.", text));
                }
                if lower {
                    let mut cap = w.clone();
                    let up: Vec<char> = cap[0].to_uppercase().collect();
                    if up.len() == 1 { cap[0] = up[0]; forms.push(cap.iter().collect()); }
                    let upper: String = text.to_uppercase();
                    if upper.chars().count() == w.len() { forms.push(upper); }
                    nontrivial += 1;
                }
                for f in &forms {
                    let d = Document::new_plain_english(f, &dict);
                    let lints = rule.lint(&d);
                    let target_start = if f.starts_with("We saw ") { 7 } else { 0 };
                    if let Some(l) = lints.iter().find(|l| l.span.start == target_start) {
                        println!("RAC-CEX spell_check {{\"dialect\": \"{:?}\", \"dictionary_entry\": {:?}, \"text\": {:?}, \"why\": \"a word the dictionary lists is reported as misspelt\", \"lint\": {:?}}}", dialect, text, f, l.message);
                        panic!("spell-check contract violated");
                    }
                }
            }
            // (b)
            if wi % mutate_every == 0 && w.iter().all(|c| c.is_ascii_alphabetic()) && w.len() >= 3 {
                let mut bogus = w.clone();
                bogus.insert(w.len() / 2, 'q');
                bogus.push('x');
                bogus.insert(1, 'j');
                if dict.contains_word(&bogus) { continue; }
                let btext: String = bogus.iter().collect();
                for (f, start) in [(btext.clone(), 0usize), (format!("We saw {} today.", btext), 7usize)] {
                    cases += 1;
                    let d = Document::new_plain_english(&f, &dict);
                    let lints = rule.lint(&d);
                    let hits: Vec<&Lint> = lints.iter().filter(|l| l.span.start < start + bogus.len() && l.span.end > start).collect();
                    if hits.len() != 1 || hits[0].span.start != start || hits[0].span.end != start + bogus.len() {
                        println!("RAC-CEX spell_check {{\"dialect\": \"{:?}\", \"text\": {:?}, \"why\": \"a letter string the dictionary does not contain is not reported exactly once with a span covering exactly the word\", \"lints\": {:?}}}", dialect, f, hits.iter().map(|l| (l.span.start, l.span.end)).collect::<Vec<_>>());
                        panic!("spell-check contract violated");
                    }
                    for s in &hits[0].suggestions {
                        if let Suggestion::ReplaceWith(v) = s {
                            let mut lowered = v.clone();
                            let lo: Vec<char> = lowered[0].to_lowercase().collect();
                            if lo.len() == 1 { lowered[0] = lo[0]; }
                            let ok = |x: &[char]| dict.get_word_metadata(x).map_or(false, |m| m.dialect.is_none_or(|dd| dd == dialect));
                            if !(ok(v) || ok(&lowered)) {
                                println!("RAC-CEX spell_check {{\"dialect\": \"{:?}\", \"text\": {:?}, \"why\": \"a suggestion is not a dictionary word of the active dialect\", \"suggestion\": {:?}}}", dialect, f, v.iter().collect::<String>());
                                panic!("spell-check contract violated");
                            }
                        }
                    }
                    if !sampled { sampled = true; println!("RAC-SAMPLE spell_check {{\"text\": {:?}, \"suggestions\": {:?}}}", f, hits[0].suggestions.len()); }
                }
            }
        }
    }
    // (c) misspellings next to dialect-tagged entries, each looked up twice by the same rule instance: every suggestion
    //     must belong to the active dialect both times
    for dialect in [Dialect::American, Dialect::British] {
        let mut rule = SpellCheck::new(dict.clone(), dialect);
        let mut n = 0usize;
        for w in words.iter() {
            let Some(m) = dict.get_word_metadata(w) else { continue };
            let Some(d) = m.dialect else { continue };
            if d == dialect || w.len() < 5 || !w.iter().all(|c| c.is_ascii_lowercase()) { continue; }
            n += 1;
            if n % 7 != 0 { continue; }
            let mut bogus = w.clone();
            bogus.remove(w.len() / 2);
            if dict.contains_word(&bogus) { continue; }
            let btext: String = bogus.iter().collect();
            for round in 0..2 {
                cases += 1;
                let f = if round == 0 { btext.clone() } else { format!("We saw {} today and {} again.", btext, btext) };
                let doc = Document::new_plain_english(&f, &dict);
                for l in rule.lint(&doc) {
                    for s in &l.suggestions {
                        if let Suggestion::ReplaceWith(v) = s {
                            let mut lowered = v.clone();
                            let lo: Vec<char> = lowered[0].to_lowercase().collect();
                            if lo.len() == 1 { lowered[0] = lo[0]; }
                            let ok = |x: &[char]| dict.get_word_metadata(x).map_or(false, |m| m.dialect.is_none_or(|dd| dd == dialect));
                            if !(ok(v) || ok(&lowered)) {
                                println!("RAC-CEX spell_check {{\"dialect\": \"{:?}\", \"text\": {:?}, \"why\": \"a suggestion is not a dictionary word of the active dialect\", \"suggestion\": {:?}, \"lookup\": {}}}", dialect, f, v.iter().collect::<String>(), round + 1);
                                panic!("spell-check contract violated");
                            }
                        }
                    }
                }
            }
        }
    }
    // (d) an entry tagged with ANOTHER dialect only is not a word of the active dialect: its listed form (which the
    //     repository's own test american_color_in_british_dialect pins) and its Capitalised / UPPER forms are reported
    for dialect in [Dialect::American, Dialect::British] {
        let mut rule = SpellCheck::new(dict.clone(), dialect);
        let mut n = 0usize;
        for w in words.iter() {
            let Some(m) = dict.get_word_metadata(w) else { continue };
            let Some(d) = m.dialect else { continue };
            if d == dialect || w.len() < 4 || !w.iter().all(|c| c.is_ascii_lowercase()) { continue; }
            n += 1;
            if n % 5 != 0 { continue; }
            let text: String = w.iter().collect();
            let mut cap = w.clone();
            cap[0] = cap[0].to_ascii_uppercase();
            for f in [text.clone(), cap.iter().collect::<String>(), text.to_uppercase()] {
                cases += 1;
                let doc = Document::new_plain_english(&f, &dict);
                if doc.get_tokens().len() != 1 { continue; }
                let lints = rule.lint(&doc);
                if !lints.iter().any(|l| l.span.start == 0 && l.span.end == w.len()) {
                    println!("RAC-CEX spell_check {{\"dialect\": \"{:?}\", \"text\": {:?}, \"why\": \"a word that only another dialect ({:?}) lists is not reported\"}}", dialect, f, d);
                    panic!("spell-check contract violated");
                }
            }
        }
    }
    println!("RAC-OK spell_check cases={} nontrivial={} bound={}-single-token-curated-entry-x-2-dialects-x-<=4-forms;every-{}-entry-mutated", cases, nontrivial, if std::env::var("VERIF_RAC_TIER").as_deref() == Ok("thorough") { "every" } else { "every-4th" }, if std::env::var("VERIF_RAC_TIER").as_deref() == Ok("thorough") { "40th" } else { "400th" });
}
