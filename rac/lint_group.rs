// Runtime contract check of LintGroup::lint (attached to harper-core/src/linting/lint_group.rs).
// BOUNDED stand-in for the chunk cache (LruCache / BTreeMap<String, Box<dyn Linter>>: outside both
// verifiers): for every ordered pair of documents drawn from 64 texts that repeat the same clauses at
// different offsets, with different leading whitespace, in different sentences and at the very end of
// the text, every lint a long-lived LintGroup reports for the second document (i.e. after its chunk
// cache has seen the first) satisfies start <= end <= text length, and every one of its suggestions
// applies without panicking and changes the text only at that span. (That the long-lived linter
// returns what a fresh one returns is property C05, which is not claimed, and is NOT part of the verdict.)
use crate::{Dialect, Document, FstDictionary};

fn rac_check(group: &mut LintGroup, text: &str) -> Result<usize, String> {
    rac_check_doc(group, text, &Document::new_plain_english_curated(text))
}

fn rac_check_doc(group: &mut LintGroup, text: &str, doc: &Document) -> Result<usize, String> {
    let src: Vec<char> = text.chars().collect();
    let lints = group.lint(doc);
    for l in &lints {
        if l.span.start > l.span.end || l.span.end > src.len() {
            return Err(format!("lint [{}, {}) '{}' lies outside the text of {} chars", l.span.start, l.span.end, l.message, src.len()));
        }
        for s in &l.suggestions {
            let mut edited = src.clone();
            let r = std::panic::catch_unwind(std::panic::AssertUnwindSafe(|| s.apply(l.span, &mut edited)));
            if r.is_err() {
                return Err(format!("applying {:?} at [{}, {}) panicked", s, l.span.start, l.span.end));
            }
            // everything before and after the span is preserved
            let tail = src.len() - l.span.end;
            if edited.len() < l.span.start + tail || edited[..l.span.start] != src[..l.span.start] || edited[edited.len() - tail..] != src[l.span.end..] {
                return Err(format!("applying {:?} at [{}, {}) changed text outside the span", s, l.span.start, l.span.end));
            }
        }
    }
    Ok(lints.len())
}

#[test]
fn rac_lint_group_cache() {
    let clauses = ["She could of went there", "He went despite of the rain", "It is an test", "this is is a clause", "Ths is mispelled", "She went despite of", "He should of", "It was the 2st"];
    let mut texts: Vec<String> = vec![];
    for c in clauses.iter() {
        texts.push(format!("{}.", c));
        texts.push(c.to_string());
        texts.push(format!("  {}", c));
        texts.push(format!("Fine sentence here. {}", c));
        texts.push(format!("{}. {}.", c, c));
        texts.push(format!("Well,   {}, and {}", c, c));
        texts.push(format!("A.\n\n{}!  {}", c, c));
        texts.push(format!("\t{}", c));
    }
    let mut cases = 0u64;
    let mut nontrivial = 0u64;
    // two long-lived linters: one meets the texts in list order, the other in reverse order, so that for
    // every two texts sharing a clause each of them is the one that populates the cache once
    for reversed in [false, true] {
        let order: Vec<&String> = if reversed { texts.iter().rev().collect() } else { texts.iter().collect() };
        let mut shared = LintGroup::new_curated(FstDictionary::curated(), Dialect::American);
        for a in order.iter() {
            for b in order.iter() {
                let first = rac_check(&mut shared, a);
                let second = rac_check(&mut shared, b);
                cases += 1;
                for (t, r) in [(a, &first), (b, &second)] {
                    match r {
                        Ok(n) => { if *n > 0 { nontrivial += 1; } }
                        Err(why) => {
                            println!("RAC-CEX lint_group_cache {{\"first\": {:?}, \"then\": {:?}, \"failing_text\": {:?}, \"why\": {:?}}}", a, b, t, why);
                            panic!("LintGroup::lint contract violated");
                        }
                    }
                }
            }
        }
    }
    println!("RAC-OK lint_group_cache cases={} nontrivial={} bound=ordered-pairs-of-64-texts,two-presentation-orders", cases, nontrivial);
}


// Every curated rule, on the sentences of the repository's own rule tests (harvested from the tree under check
// into RAC_LINT_CORPUS), each at three positions: alone, after a heading paragraph, and followed by a tab at the very
// end of the text, plus white-space variants (every blank in turn replaced by blank + line break, a line break, two
// blanks) and a few hand-written texts. BOUNDED stand-in for "every rule reports start <= end <= text
// length and its suggestions are local edits" (C03), which no contract can reach (~290 rule bodies).
include!("/verif/.cache/rac-gen/lint_corpus.rs");

#[test]
fn rac_rule_spans() {
    let extra = ["This line ends with a tab\t", "That s", "Well that s", "It costs 25$ 24$ or 23$.", "the the the end", "😀😀 an test é", "She said \"hi", "1st 2st 3st"];
    let long_sentence = "This sentence is deliberately written to be very long so that it contains more than forty words in total and keeps going on and on without any real point other than to exceed the limit that the long sentence rule uses to decide when a sentence is too long.";
    let mut texts: Vec<String> = vec![];
    for t in RAC_LINT_CORPUS.iter().chain(extra.iter()) {
        texts.push(t.to_string());
        texts.push(format!("Title here\n\nÉ 😀 intro. {}", t));
        texts.push(format!("{}\t", t));
    }
    texts.push(long_sentence.to_string());
    texts.push(format!("# Heading\n\nShort one. {}", long_sentence));
    // a long sentence whose first token is not a word (emoji, CJK, a symbol)
    for lead in ["😀 ", "日本 ", "@ ", "( ", "\"", "… "] { texts.push(format!("{}{}", lead, long_sentence)); texts.push(format!("Intro. {}{}", lead, long_sentence)); }
    // white-space variants of every sentence: each blank in turn (up to 12 per sentence) becomes blank + line break,
    // a lone line break, or two blanks - rules that count the tokens of a match must cope with all of them
    for t in RAC_LINT_CORPUS.iter().chain(extra.iter()) {
        let blanks: Vec<usize> = t.char_indices().filter(|(_, c)| *c == ' ').map(|(i, _)| i).take(12).collect();
        for b in blanks {
            for rep in [" \n", "\n", "  ", " \n "] {
                let mut v = String::with_capacity(t.len() + 2);
                v.push_str(&t[..b]);
                v.push_str(rep);
                v.push_str(&t[b + 1..]);
                texts.push(v);
            }
        }
    }
    // a document being typed (C01: "every prefix"): every sentence cut after each of its words (with and without the blank), and
    // every character prefix of every 7th sentence
    for (k, t) in RAC_LINT_CORPUS.iter().chain(extra.iter()).enumerate() {
        let cs: Vec<char> = t.chars().collect();
        for i in 1..cs.len() {
            if cs[i] == ' ' || k % 7 == 0 {
                texts.push(cs[..i].iter().collect());
                if cs[i] == ' ' { texts.push(cs[..=i].iter().collect()); }
            }
        }
    }
    // a number with more decimals than a formatter precision can hold
    texts.push(format!("It costs $1.{} today, or 2.{}$ tomorrow.", "0".repeat(70000), "5".repeat(66000)));
    let mut group = LintGroup::new_curated(FstDictionary::curated(), Dialect::American);
    let mut cases = 0u64;
    let mut nontrivial = 0u64;
    // the same sentences through the Markdown front-end, followed by a paragraph break and another paragraph
    let md_texts: Vec<String> = texts.iter().step_by(3).map(|t| format!("Short one. {}\n\nNext paragraph here.", t)).chain([format!("Short one. {}\n\nNext paragraph here.", long_sentence), format!("Hi. {}\n", vec!["a"; 41].join(" ")), format!("- Item. {}\n- next\n", vec!["word"; 42].join(" ")), format!("# T. {}\n\nBody.\n", vec!["go"; 41].join(" ")), format!("`code` {}", long_sentence), format!("Intro. `x` {}\n\nEnd.", long_sentence), format!("*{}*", long_sentence)]).collect();
    for t in &md_texts {
        let r = std::panic::catch_unwind(std::panic::AssertUnwindSafe(|| rac_check_doc(&mut group, t, &Document::new_markdown_default_curated(t))));
        cases += 1;
        match r {
            Ok(Ok(n)) => { if n > 0 { nontrivial += 1; } }
            Ok(Err(why)) => { println!("RAC-CEX rule_spans {{\"front_end\": \"markdown\", \"text\": {:?}, \"why\": {:?}}}", t, why); panic!("rule span contract violated"); }
            Err(_) => { println!("RAC-CEX rule_spans {{\"front_end\": \"markdown\", \"text\": {:?}, \"why\": \"linting panicked\"}}", t); panic!("linting panicked"); }
        }
    }
    for t in &texts {
        let r = std::panic::catch_unwind(std::panic::AssertUnwindSafe(|| rac_check(&mut group, t)));
        cases += 1;
        match r {
            Ok(Ok(n)) => { if n > 0 { nontrivial += 1; } }
            Ok(Err(why)) => {
                println!("RAC-CEX rule_spans {{\"text\": {:?}, \"why\": {:?}}}", t, why);
                panic!("rule span contract violated");
            }
            Err(_) => {
                println!("RAC-CEX rule_spans {{\"text\": {:?}, \"why\": \"linting panicked\"}}", t);
                panic!("linting panicked");
            }
        }
    }
    println!("RAC-OK rule_spans cases={} nontrivial={} bound=rule-test-sentences-x-3-positions+white-space-variants+word-boundary-prefixes", cases, nontrivial);
}
