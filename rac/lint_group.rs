// Runtime contract check of LintGroup::lint (attached to harper-core/src/linting/lint_group.rs).
// BOUNDED stand-in for the chunk cache (LruCache / BTreeMap<String, Box<dyn Linter>>: outside both
// verifiers): for every ordered pair of documents drawn from 40 texts that repeat the same clauses at
// different offsets, with different leading whitespace and in different sentences, a long-lived
// LintGroup returns for the second document exactly what a fresh LintGroup returns, and every lint
// span satisfies start <= end <= text length.
use crate::{Dialect, Document, FstDictionary};

fn rac_lints(group: &mut LintGroup, text: &str) -> Vec<(usize, usize, String, usize)> {
    let doc = Document::new_plain_english_curated(text);
    let mut v: Vec<_> = group.lint(&doc).into_iter().map(|l| (l.span.start, l.span.end, l.message.clone(), l.suggestions.len())).collect();
    v.sort();
    v
}

#[test]
fn rac_lint_group_cache() {
    let clauses = ["She could of went there", "He went despite of the rain", "It is an test", "this is is a clause", "Ths is mispelled"];
    let mut texts: Vec<String> = vec![];
    for c in clauses.iter() {
        texts.push(format!("{}.", c));
        texts.push(format!("  {}.", c));
        texts.push(format!("Fine sentence here. {}.", c));
        texts.push(format!("{}. {}.", c, c));
        texts.push(format!("Well,   {}, and {}.", c, c));
        texts.push(format!("A.\n\n{}!  {}?", c, c));
        texts.push(format!("{}, {}. {}.", c, clauses[0], c));
        texts.push(format!("\t{}", c));
    }
    let mut cases = 0u64;
    let mut nontrivial = 0u64;
    let mut fresh_results = vec![];
    for t in &texts {
        let mut fresh = LintGroup::new_curated(FstDictionary::curated(), Dialect::American);
        let r = rac_lints(&mut fresh, t);
        let n = t.chars().count();
        for (s, e, m, _) in &r {
            if s > e || *e > n {
                println!("RAC-CEX lint_group_cache {{\"text\": {:?}, \"why\": \"lint [{}, {}) '{}' lies outside the text of {} chars (fresh linter)\"}}", t, s, e, m, n);
                panic!("lint span outside the text");
            }
        }
        fresh_results.push(r);
    }
    let mut shared = LintGroup::new_curated(FstDictionary::curated(), Dialect::American);
    for (i, a) in texts.iter().enumerate() {
        for (j, b) in texts.iter().enumerate() {
            // one long-lived linter sees a, then b (and everything before): caches must be unobservable
            let _ = rac_lints(&mut shared, a);
            let got = rac_lints(&mut shared, b);
            cases += 1;
            if !got.is_empty() { nontrivial += 1; }
            let n = b.chars().count();
            let mut why: Option<String> = None;
            for (s, e, m, _) in &got {
                if s > e || *e > n {
                    why = Some(format!("lint [{}, {}) '{}' lies outside the text of {} chars", s, e, m, n));
                }
            }
            if why.is_none() && got != fresh_results[j] {
                why = Some(format!("long-lived linter returned {:?} but a fresh linter returns {:?}", got.iter().map(|x| (x.0, x.1)).collect::<Vec<_>>(), fresh_results[j].iter().map(|x| (x.0, x.1)).collect::<Vec<_>>()));
            }
            if let Some(w) = why {
                println!("RAC-CEX lint_group_cache {{\"first\": {:?}, \"then\": {:?}, \"why\": {:?}}}", a, b, w);
                panic!("LintGroup::lint contract violated");
            }
            let _ = i;
        }
    }
    println!("RAC-OK lint_group_cache cases={} nontrivial={} bound=ordered-pairs-of-40-texts", cases, nontrivial);
}
