// Runtime contract check of paragraph independence (attached to harper-core/src/linting/lint_group.rs).
// BOUNDED stand-in for C12 (a relational contract of the whole parse + rule pipeline:
// lint(P ++ D) == lint(P) ++ shift(lint(D), |P|); no verifier reaches the ~290 rule bodies). For pairs (P, D) of
// the repository's own rule-test sentences, P free of double quotes, ending in a sentence terminator and
// followed by a blank line, all curated rules on, plain-English front-end: the lints of the whole are, as a
// multiset, the lints of P plus the lints of D shifted by the length of P.
use crate::{Dialect, FstDictionary};

include!("/verif/.cache/rac-gen/lint_corpus.rs");

fn rac_key(l: &Lint, shift: usize) -> String {
    let mut l = l.clone();
    l.span.start += shift;
    l.span.end += shift;
    format!("{:?}", l)
}

#[test]
fn rac_paragraph_independence() {
    let mut group = LintGroup::new_curated(FstDictionary::curated(), Dialect::American);
    // "all rules enabled" (the property's quantifier), not just the curated defaults
    group.set_all_rules_to(Some(true));
    let firsts: Vec<String> = RAC_LINT_CORPUS.iter()
        .filter(|t| !t.contains('"') && !t.contains('“') && !t.contains('”') && !t.contains('\n') && !t.is_empty())
        .step_by(5).take(110)
        .map(|t| { let t = t.trim_end(); if t.ends_with('.') || t.ends_with('!') || t.ends_with('?') { format!("{}\n\n", t) } else { format!("{}.\n\n", t) } })
        .collect();
    let mut firsts = firsts;
    // shapes the sampled sentences do not have: ordinals (token merging), a clause that also opens the continuation,
    // a very short paragraph
    for t in ["The market opens early on Saturday mornings.\n\n", "We sell apples, pears, bread, cheese, wine, etc.\n\n",
              "This first paragraph has one rather long sentence that keeps going for a while, with apples, pears, and plums in it, so that any scan position carried over from it is large.\n\n",
              "We came 1st in May and 3rd in June.\n\n", "Intro words. I should of gone there.\n\n", "Fine.\n\n", "It was the 2st time. Then then it ended.\n\n"] { firsts.push(t.to_string()); }
    let mut seconds: Vec<String> = RAC_LINT_CORPUS.iter().filter(|t| !t.contains("\n\n")).skip(3).step_by(9).take(60).map(|t| t.to_string()).collect();
    seconds.push("it started with \"a quote and the the end".to_string());
    seconds.push("lowercase start, 2st place\nand a second line".to_string());
    seconds.push("In short, we bought apples, pears and plums.".to_string());
    seconds.push("25 $ was the price of it.".to_string());
    seconds.push("Is the old lamp still there?".to_string());
    seconds.push("We bought apples, pears, and plums.".to_string());
    seconds.push("They came 2nd and 4th, we we came 5st.".to_string());
    seconds.push("I should of gone there. I should of gone there.".to_string());
    seconds.push("a short one.\n\nAnother paragraph follows here and it is is long enough.".to_string());
    seconds.push("yes we can\n\nthe end\n\nmore text follows here.".to_string());
    seconds.push(String::new());
    let mut cases = 0u64;
    let mut nontrivial = 0u64;
    let mut sampled = false;
    for p in &firsts {
        let plen = p.chars().count();
        let doc_p = Document::new_plain_english_curated(p);
        let lp = group.lint(&doc_p);
        for d in &seconds {
            cases += 1;
            let whole = format!("{}{}", p, d);
            let r = std::panic::catch_unwind(std::panic::AssertUnwindSafe(|| {
                let doc_d = Document::new_plain_english_curated(d);
                let doc_w = Document::new_plain_english_curated(&whole);
                let ld = group.lint(&doc_d);
                let lw = group.lint(&doc_w);
                let mut want: Vec<String> = lp.iter().map(|l| rac_key(l, 0)).chain(ld.iter().map(|l| rac_key(l, plen))).collect();
                let mut got: Vec<String> = lw.iter().map(|l| rac_key(l, 0)).collect();
                want.sort();
                got.sort();
                (want, got, !lp.is_empty() && !ld.is_empty())
            }));
            match r {
                Err(_) => { println!("RAC-CEX paragraph_independence {{\"first\": {:?}, \"rest\": {:?}, \"why\": \"panicked\"}}", p, d); panic!("paragraph contract violated"); }
                Ok((want, got, both)) => {
                    if both { nontrivial += 1; }
                    if want != got {
                        let missing: Vec<&String> = want.iter().filter(|x| !got.contains(x)).take(2).collect();
                        let extra: Vec<&String> = got.iter().filter(|x| !want.contains(x)).take(2).collect();
                        println!("RAC-CEX paragraph_independence {{\"first\": {:?}, \"rest\": {:?}, \"why\": \"lints of the whole differ from the parts\", \"missing_from_whole\": {:?}, \"only_in_whole\": {:?}}}", p, d, missing, extra);
                        panic!("paragraph contract violated");
                    }
                    if both && !sampled { sampled = true; println!("RAC-SAMPLE paragraph_independence {{\"first\": {:?}, \"rest\": {:?}, \"lints_in_whole\": {}}}", p, d, got.len()); }
                }
            }
        }
    }
    // the same contract with a FRESH rule set for each of the three runs (no shared pattern cache), on the hand-made
    // shapes and a sample of the pairs above: a defect that is replayed consistently from a shared cache cancels out above
    let special_first: Vec<String> = firsts.iter().rev().take(7).cloned().chain(firsts.iter().step_by(23).cloned()).collect();
    let special_second: Vec<String> = seconds.iter().rev().take(10).cloned().chain(seconds.iter().step_by(17).cloned()).collect();
    let fresh = |t: &str| -> Vec<Lint> {
        let doc = Document::new_plain_english_curated(t);
        let mut g = LintGroup::new_curated(FstDictionary::curated(), Dialect::American);
        g.set_all_rules_to(Some(true));
        g.lint(&doc)
    };
    for p in &special_first {
        let plen = p.chars().count();
        for d in &special_second {
            cases += 1;
            let whole = format!("{}{}", p, d);
            let r = std::panic::catch_unwind(std::panic::AssertUnwindSafe(|| {
                let mut want: Vec<String> = fresh(p).iter().map(|l| rac_key(l, 0)).chain(fresh(d).iter().map(|l| rac_key(l, plen))).collect();
                let mut got: Vec<String> = fresh(&whole).iter().map(|l| rac_key(l, 0)).collect();
                want.sort();
                got.sort();
                (want, got)
            }));
            match r {
                Err(_) => { println!("RAC-CEX paragraph_independence {{\"first\": {:?}, \"rest\": {:?}, \"why\": \"panicked (fresh rule sets)\"}}", p, d); panic!("paragraph contract violated"); }
                Ok((want, got)) => {
                    if want != got {
                        let missing: Vec<&String> = want.iter().filter(|x| !got.contains(x)).take(2).collect();
                        let extra: Vec<&String> = got.iter().filter(|x| !want.contains(x)).take(2).collect();
                        println!("RAC-CEX paragraph_independence {{\"first\": {:?}, \"rest\": {:?}, \"why\": \"lints of the whole differ from the parts (fresh rule set per run)\", \"missing_from_whole\": {:?}, \"only_in_whole\": {:?}}}", p, d, missing, extra);
                        panic!("paragraph contract violated");
                    }
                }
            }
        }
    }
    println!("RAC-OK paragraph_independence cases={} nontrivial={} bound={}-first-paragraphs-x-{}-continuations-from-the-harvested-rule-test-sentences", cases, nontrivial, firsts.len(), seconds.len());
}
