// Runtime contract check of Document::parse for plain English (attached to harper-core/src/document.rs).
// BOUNDED stand-in for the condensing passes that are not (yet) under a Verus contract:
// for every text of length 0..=4 over a 15-symbol alphabet and every concatenation of up to 4
// fragments from a list that triggers each condensing pass, the final tokens
//   (a) tile the text exactly (no character lost or duplicated),
//   (b) quote tokens point at an existing twin quote that points back,
//   (c) a number token's text denotes its value (decimal or 0x-hex) and, with a suffix, ends in exactly those two
//       suffix letters (any case),
//   (d) space tokens cover only blanks/tabs, newline / paragraph-break tokens only line feeds,
//   (e) word tokens contain no whitespace.
use crate::Punctuation;

fn rac_check_doc(text: &[char]) -> Result<usize, String> {
    let src: Vec<char> = text.to_vec();
    let doc = Document::new_from_vec(Lrc::new(src.clone()), &PlainEnglish, &FstDictionary::curated());
    let toks = doc.get_tokens();
    let mut cur = 0;
    for (i, t) in toks.iter().enumerate() {
        if t.span.start != cur || t.span.end <= t.span.start {
            return Err(format!("tokens do not tile at token #{} {:?}..{:?} (expected start {})", i, t.span.start, t.span.end, cur));
        }
        cur = t.span.end;
        if cur > src.len() {
            return Err(format!("token #{} ends at {} beyond the text ({})", i, cur, src.len()));
        }
        let content = &src[t.span.start..t.span.end];
        match &t.kind {
            TokenKind::Punctuation(Punctuation::Quote(q)) => {
                if let Some(j) = q.twin_loc {
                    let ok = j < toks.len() && j != i
                        && matches!(&toks[j].kind, TokenKind::Punctuation(Punctuation::Quote(q2)) if q2.twin_loc == Some(i));
                    if !ok {
                        return Err(format!("quote token #{} has twin_loc {} which is not a quote pointing back", i, j));
                    }
                }
            }
            TokenKind::Number(n) => {
                // the token's text denotes its numeric value
                let digits: String = content[..content.len() - if n.suffix.is_some() { 2 } else { 0 }].iter().collect();
                let denoted: Option<f64> = if n.radix == 16 {
                    digits.strip_prefix("0x").and_then(|h| u64::from_str_radix(h, 16).ok()).map(|v| v as f64)
                } else {
                    digits.parse::<f64>().ok()
                };
                if denoted != Some(n.value.0) {
                    return Err(format!("number token #{} has text {:?} (radix {}) but value {}", i, content.iter().collect::<String>(), n.radix, n.value.0));
                }
                if let Some(s) = n.suffix {
                    let want = s.to_chars();
                    let l = content.len();
                    if l < 3 || content[l - 2].to_ascii_lowercase() != want[0] || content[l - 1].to_ascii_lowercase() != want[1] {
                        return Err(format!("number token #{} carries suffix {:?} but its text is {:?}", i, s, content.iter().collect::<String>()));
                    }
                }
            }
            TokenKind::Space(_) => {
                if !content.iter().all(|c| *c == ' ' || *c == '\t') {
                    return Err(format!("space token #{} covers {:?}", i, content.iter().collect::<String>()));
                }
            }
            TokenKind::Newline(_) | TokenKind::ParagraphBreak => {
                if !content.iter().all(|c| *c == '\n') {
                    return Err(format!("newline token #{} covers {:?}", i, content.iter().collect::<String>()));
                }
            }
            TokenKind::Word(_) => {
                if content.iter().any(|c| c.is_whitespace()) {
                    return Err(format!("word token #{} contains whitespace: {:?}", i, content.iter().collect::<String>()));
                }
            }
            _ => {}
        }
    }
    if cur != src.len() {
        return Err(format!("tokens end at {} but the text has {} chars", cur, src.len()));
    }
    Ok(toks.len())
}

// progress watchdog (C01: never hangs): every input takes milliseconds; an input that is still being
// processed after 20 s is reported as non-terminating and the test process is ended
#[allow(dead_code)]
fn rac_watchdog(name: &'static str) -> std::sync::Arc<std::sync::Mutex<Option<(u64, String)>>> {
    let cur = std::sync::Arc::new(std::sync::Mutex::new(None::<(u64, String)>));
    let c2 = cur.clone();
    std::thread::spawn(move || {
        let mut last: Option<(u64, String)> = None;
        let mut since = std::time::Instant::now();
        loop {
            std::thread::sleep(std::time::Duration::from_secs(1));
            let c = c2.lock().unwrap().clone();
            if c != last {
                last = c;
                since = std::time::Instant::now();
            } else if last.is_some() && since.elapsed().as_secs() >= 20 {
                println!("RAC-CEX {} {{\"text\": {:?}, \"why\": \"did not terminate within 20 s (other inputs take milliseconds)\"}}", name, last.unwrap().1);
                std::process::exit(1);
            }
        }
    });
    cur
}

include!("/verif/.cache/rac-gen/lex_literals.rs");
#[test]
fn rac_document_tiles() {
    let wd = rac_watchdog("document_tiles");
    let alpha = ['a', 'i', 'e', '.', ' ', '\n', '\t', '1', '2', 's', 't', 'n', 'd', '"', '\''];
    let frags = ["i.e.", "e.g.", "N.S.A.", "1st", "22ND", "3rd ", " ", "\"", "etc.", "...", "isn't", "\n\n", "a", "B.", " vs. ", "1980s", "x", "0xFF", "0x10000000000000001 ", "3.5", "7", "82619480106151798 ", "\"q\" ", "(x) "];
    let mut texts: Vec<Vec<char>> = vec![vec![]];
    let mut frontier: Vec<Vec<char>> = vec![vec![]];
    for _ in 0..4 {
        let mut next = vec![];
        for t in &frontier {
            for c in alpha.iter() {
                let mut u = t.clone();
                u.push(*c);
                next.push(u);
            }
        }
        texts.extend(next.iter().cloned());
        frontier = next;
    }
    let mut fr: Vec<String> = vec![String::new()];
    for _ in 0..4 {
        let mut next = vec![];
        for t in &fr {
            for f in frags.iter() {
                next.push(format!("{}{}", t, f));
            }
        }
        texts.extend(next.iter().map(|s| s.chars().collect::<Vec<char>>()));
        fr = next;
    }
    // every quotation mark the lexer of the tree under check knows (single-character literals harvested from lexing/*.rs for
    // which lex_quote answers), in every order: all texts of up to 4 symbols over those marks, a letter and a blank
    {
        let mut qa: Vec<char> = vec![];
        for lit in RAC_LEX_LITERALS.iter() {
            let cs: Vec<char> = lit.chars().collect();
            if cs.len() == 1 && crate::lexing::lex_token(&cs).map(|f| matches!(f.token, TokenKind::Punctuation(Punctuation::Quote(_)))).unwrap_or(false) && !qa.contains(&cs[0]) { qa.push(cs[0]); }
        }
        qa.truncate(6);
        qa.push('a'); qa.push(' ');
        let mut frontier: Vec<Vec<char>> = vec![vec![]];
        for _ in 0..4 {
            let mut next = vec![];
            for t in &frontier { for c in qa.iter() { let mut u = t.clone(); u.push(*c); next.push(u); } }
            texts.extend(next.iter().cloned());
            frontier = next;
        }
    }
    let mut cases = 0u64;
    let mut nontrivial = 0u64;
    for t in &texts {
        *wd.lock().unwrap() = Some((cases, t.iter().collect::<String>()));
        let r = std::panic::catch_unwind(|| rac_check_doc(t));
        let lexed = std::panic::catch_unwind(|| PlainEnglish.parse(t).len()).unwrap_or(0);
        cases += 1;
        match r {
            Ok(Ok(n)) => {
                if n < lexed {
                    nontrivial += 1; // some condensing pass merged tokens
                }
            }
            Ok(Err(why)) => {
                println!("RAC-CEX document_tiles {{\"text\": {:?}, \"why\": {:?}}}", t.iter().collect::<String>(), why);
                panic!("document contract violated");
            }
            Err(_) => {
                println!("RAC-CEX document_tiles {{\"text\": {:?}, \"why\": \"panicked\"}}", t.iter().collect::<String>());
                panic!("Document::parse panicked");
            }
        }
    }
    *wd.lock().unwrap() = None;
    println!("RAC-OK document_tiles cases={} nontrivial={} bound=len<=4-over-15-symbols+<=4-of-24-fragments+len<=4-over-the-lexer-quote-marks", cases, nontrivial);
}

// Runtime contract check of Document::condense_indices, whose contract the Verus unit `document`
// assumes (the body uses peekable(), outside Verus): for every token list of length 0..=7 (one char
// per token, distinct kinds), stretch lengths 1..=3 and every index list with non-overlapping
// in-range stretches: each listed index absorbs the stretch_len-1 tokens after it (span end extended),
// absorbed tokens are deleted, everything else is unchanged.
#[test]
fn rac_condense_indices() {
    let mut cases = 0u64;
    let mut nontrivial = 0u64;
    for len in 0..=7usize {
        for st in 1..=3usize {
            for mask in 0u32..(1 << len) {
                let idx: Vec<usize> = (0..len).filter(|i| mask & (1 << i) != 0).collect();
                if idx.iter().any(|i| i + st > len) || idx.windows(2).any(|w| w[0] + st > w[1]) {
                    continue;
                }
                let toks: Vec<Token> = (0..len).map(|i| Token::new(Span::new(i, i + 1), TokenKind::Space(i + 1))).collect();
                let mut doc = Document { source: Lrc::new(vec!['x'; len]), tokens: toks.clone() };
                let r = std::panic::catch_unwind(std::panic::AssertUnwindSafe(|| { doc.condense_indices(&idx, st); }));
                cases += 1;
                if !idx.is_empty() && st > 1 { nontrivial += 1; }
                let mut want: Vec<Token> = vec![];
                let mut i = 0;
                while i < len {
                    if idx.contains(&i) {
                        let mut t = toks[i].clone();
                        t.span.end = toks[i + st - 1].span.end;
                        want.push(t);
                        i += st;
                    } else {
                        want.push(toks[i].clone());
                        i += 1;
                    }
                }
                if r.is_err() || doc.tokens != want {
                    println!("RAC-CEX condense_indices {{\"len\": {}, \"stretch_len\": {}, \"indices\": {:?}, \"panicked\": {}, \"got\": {:?}, \"want\": {:?}}}", len, st, idx, r.is_err(),
                             doc.tokens.iter().map(|t| (t.span.start, t.span.end)).collect::<Vec<_>>(), want.iter().map(|t| (t.span.start, t.span.end)).collect::<Vec<_>>());
                    panic!("condense_indices contract violated");
                }
            }
        }
    }
    println!("RAC-OK condense_indices cases={} nontrivial={} bound=len<=7,stretch<=3,all-admissible-index-lists", cases, nontrivial);
}
