// Runtime contract check of CurrencyPlacement::lint, a caller of remove_overlaps (attached to
// harper-core/src/linting/currency_placement.rs). C13: "the lints ... can all be fixed in one pass, back to front,
// without the edits interfering" - the rule's own output must be conflict-free. BOUNDED: every text made of up to 4
// fragments from {"25$ ", "$ 24 ", "24$", "€ 5 ", "They were ", "or 23$.", "£", "10 "}.
#[test]
fn rac_currency_conflict_free() {
    let frags = ["25$ ", "$ 24 ", "24$", "€ 5 ", "They were ", "or 23$.", "£", "10 "];
    let mut texts: Vec<String> = vec![String::new()];
    let mut frontier: Vec<String> = vec![String::new()];
    for _ in 0..4 {
        let mut next = vec![];
        for t in &frontier { for f in frags.iter() { next.push(format!("{}{}", t, f)); } }
        texts.extend(next.iter().cloned());
        frontier = next;
    }
    let mut cases = 0u64;
    let mut nontrivial = 0u64;
    for t in &texts {
        let doc = Document::new_plain_english_curated(t);
        let r = std::panic::catch_unwind(std::panic::AssertUnwindSafe(|| CurrencyPlacement::default().lint(&doc)));
        cases += 1;
        let n = t.chars().count();
        let mut bad: Option<String> = None;
        match &r {
            Err(_) => bad = Some("panicked".to_string()),
            Ok(lints) => {
                if lints.len() > 1 { nontrivial += 1; }
                for (i, a) in lints.iter().enumerate() {
                    if a.span.start > a.span.end || a.span.end > n { bad = Some(format!("lint [{}, {}) outside the text", a.span.start, a.span.end)); }
                    for (j, b) in lints.iter().enumerate() {
                        if i != j && a.span.overlaps_with(b.span) { bad = Some(format!("lints [{}, {}) and [{}, {}) share a character", a.span.start, a.span.end, b.span.start, b.span.end)); }
                    }
                }
            }
        }
        if let Some(why) = bad {
            println!("RAC-CEX currency_conflict_free {{\"text\": {:?}, \"why\": {:?}}}", t, why);
            panic!("CurrencyPlacement output is not conflict-free");
        }
    }
    println!("RAC-OK currency_conflict_free cases={} nontrivial={} bound=<=4-of-8-fragments", cases, nontrivial);
}
