// Runtime contract check of rule switches (attached to harper-core/src/linting/lint_group.rs).
// BOUNDED stand-in for C11 (LintGroupConfig lives on BTreeMap<String, Option<bool>>: no String ordering axioms in
// vstd, and CBMC runs out of memory on a two-key BTreeMap<String, _> harness - measured). Contract of
// LintGroup::lint with respect to its configuration, and of the configuration algebra:
//  (a) with every rule off nothing is reported (also right after the same text was linted with the rules on), and
//      toggling switches leaves the curated output as it was before;
//  (b) for sampled sentences of the repository's own rule tests and every rule r: lints(default) is, as a
//      multiset, the union over the rules enabled by default of lints(only r); switching one firing rule off
//      removes exactly that rule's lints;
//  (c) for pseudo-random subsets S = S1 + S2 of the rules: lints(S) == lints(S1) + lints(S2) == sum of lints(only r);
//  (d) overlay: for all 256 + 8 user configurations (the 8: every curated key present but unset, as harper-wasm holds it) assigning {absent, null, on, off} to three real rules and one
//      unknown name, after fill_with_curated every explicit choice wins, everything else takes the curated default,
//      the unknown name changes no lint, and the configuration survives a JSON round trip; merge_from(a, b) for all
//      pairs: b's explicit choices win, the rest is a's.
use crate::{Dialect, FstDictionary};

include!("/verif/.cache/rac-gen/lint_corpus.rs");

fn rac_ms(mut v: Vec<Lint>) -> Vec<String> {
    let mut s: Vec<String> = v.drain(..).map(|l| format!("{:?}", l)).collect();
    s.sort();
    s
}

fn rac_only(group: &mut LintGroup, on: &[String]) {
    group.set_all_rules_to(Some(false));
    for k in on {
        group.config.set_rule_enabled(k, true);
    }
}

#[test]
fn rac_rule_switches() {
    let mut group = LintGroup::new_curated(FstDictionary::curated(), Dialect::American);
    let keys: Vec<String> = group.iter_keys().map(|k| k.to_string()).collect();
    let curated = group.config.clone();
    let default_on: Vec<String> = keys.iter().filter(|k| curated.is_rule_enabled(k)).cloned().collect();
    let mut cases = 0u64;
    let mut nontrivial = 0u64;
    let extra = ["The movie was very good and the food was very good, really.",
                 "There is an apple, a pear and an orange on teh table, and and it cost 25$ on the 2st day.",
                 "this sentence has  two spaces ,a bad comma,and an unclosed \"quote and is is wrong."];
    let sample: Vec<&str> = RAC_LINT_CORPUS.iter().step_by(5).take(150).cloned().chain(extra.iter().cloned()).collect();
    let mut rng: u64 = 0x2545F4914F6CDD1D;
    for (ti, t) in sample.iter().enumerate() {
        let doc = Document::new_plain_english_curated(t);
        let r = std::panic::catch_unwind(std::panic::AssertUnwindSafe(|| -> Option<String> {
            // the curated configuration first, before any switch is touched for this sentence
            group.config = curated.clone();
            let full_first = rac_ms(group.lint(&doc));
            // (a)
            rac_only(&mut group, &[]);
            if !group.lint(&doc).is_empty() {
                return Some("lints are reported although every rule is switched off".to_string());
            }
            // per-rule outputs
            let mut per_rule: Vec<Vec<Lint>> = Vec::with_capacity(keys.len());
            for k in &keys {
                rac_only(&mut group, std::slice::from_ref(k));
                per_rule.push(group.lint(&doc));
            }
            let union_of = |sel: &dyn Fn(&String) -> bool| -> Vec<String> {
                let mut all = vec![];
                for (i, k) in keys.iter().enumerate() {
                    if sel(k) { all.extend(per_rule[i].iter().cloned()); }
                }
                rac_ms(all)
            };
            // (b)
            group.config = curated.clone();
            let full = rac_ms(group.lint(&doc));
            if full != full_first {
                return Some(format!("after switching rules off and on again the curated configuration reports {} lints, before it reported {}", full.len(), full_first.len()));
            }
            if full != union_of(&|k| default_on.contains(k)) {
                return Some(format!("the curated configuration reports {} lints, its enabled rules one by one report {}", full.len(), union_of(&|k| default_on.contains(k)).len()));
            }
            if let Some(fi) = keys.iter().enumerate().position(|(i, k)| default_on.contains(k) && !per_rule[i].is_empty()) {
                group.config = curated.clone();
                group.config.set_rule_enabled(&keys[fi], false);
                let without = rac_ms(group.lint(&doc));
                let fk = keys[fi].clone();
                if without != union_of(&|k| default_on.contains(k) && *k != fk) {
                    return Some(format!("switching {} off changed the output of another rule (or left its own lints)", fk));
                }
            }
            // (c)
            for _ in 0..3 {
                let mut s1 = vec![];
                let mut s2 = vec![];
                for k in &keys {
                    rng ^= rng << 13; rng ^= rng >> 7; rng ^= rng << 17;
                    let firing = !per_rule[keys.iter().position(|x| x == k).unwrap()].is_empty();
                    // rules that fire on this sentence are always drawn into one of the halves
                    match if firing { rng % 2 } else { rng % 3 } { 0 => s1.push(k.clone()), 1 => s2.push(k.clone()), _ => {} }
                }
                let both: Vec<String> = s1.iter().chain(s2.iter()).cloned().collect();
                rac_only(&mut group, &both);
                let l_both = rac_ms(group.lint(&doc));
                rac_only(&mut group, &s1);
                let mut l_parts = group.lint(&doc);
                rac_only(&mut group, &s2);
                l_parts.extend(group.lint(&doc));
                if l_both != rac_ms(l_parts) {
                    return Some(format!("lints(S1+S2) != lints(S1)+lints(S2) for S1 = {:?}..., S2 = {:?}...", &s1[..s1.len().min(3)], &s2[..s2.len().min(3)]));
                }
                if l_both != union_of(&|k| both.contains(k)) {
                    return Some("lints(S) differs from the rules of S run one by one".to_string());
                }
            }
            if per_rule.iter().filter(|l| !l.is_empty()).count() >= 1 { None } else { Some(String::new()) }
        }));
        cases += 1;
        match r {
            Err(_) => { println!("RAC-CEX rule_switches {{\"text\": {:?}, \"why\": \"panicked\"}}", t); panic!("rule-switch contract violated"); }
            Ok(Some(why)) if !why.is_empty() => { println!("RAC-CEX rule_switches {{\"text\": {:?}, \"why\": {:?}}}", t, why); panic!("rule-switch contract violated"); }
            Ok(None) => nontrivial += 1,
            Ok(Some(_)) => {}
        }
        if ti == 3 { println!("RAC-SAMPLE rule_switches {{\"text\": {:?}, \"rules\": {}}}", t, keys.len()); }
    }
    // (d) configuration algebra
    let off_by_default = keys.iter().find(|k| !curated.is_rule_enabled(k)).cloned().unwrap_or_else(|| "NoOxfordComma".to_string());
    let names = ["SpellCheck".to_string(), off_by_default, "LongSentences".to_string(), "NoSuchRule\"\n".to_string()];
    let vals: [Option<Option<bool>>; 4] = [None, Some(None), Some(Some(true)), Some(Some(false))];
    let mut pool: Vec<LintGroupConfig> = vec![];
    for code in 0..256usize {
        let mut c = LintGroupConfig::default();
        for (i, n) in names.iter().enumerate() {
            if let Some(v) = vals[(code >> (2 * i)) & 3] { c.inner.insert(n.clone(), v); }
        }
        pool.push(c);
    }
    // the shape harper.js / harper-wasm use: EVERY curated key present but unset, plus the user's few explicit choices
    // and possibly an obsolete rule name - i.e. a user configuration with more entries than the curated one
    for code in 0..8usize {
        let mut c = curated.clone();
        c.clear();
        if code & 1 != 0 { c.inner.insert(names[3].clone(), Some(true)); }
        c.inner.insert(names[0].clone(), Some(code & 2 != 0));
        if code & 4 != 0 { c.inner.insert(names[1].clone(), Some(true)); }
        pool.push(c);
    }
    let doc = Document::new_plain_english_curated(extra[1]);
    for user in &pool {
        cases += 1;
        let mut bad: Option<String> = None;
        let json = serde_json::to_string(user).unwrap();
        match serde_json::from_str::<LintGroupConfig>(&json) {
            Ok(back) if back == *user => {}
            _ => bad = Some(format!("the configuration {} does not survive a JSON round trip", json)),
        }
        let mut filled = user.clone();
        filled.fill_with_curated();
        for k in keys.iter() {
            let want = match user.inner.get(k) { Some(Some(v)) => *v, _ => curated.is_rule_enabled(k) };
            if filled.is_rule_enabled(k) != want && bad.is_none() {
                bad = Some(format!("user configuration {}: after the curated overlay rule {} is {}, expected {}", json, k, filled.is_rule_enabled(k), want));
            }
        }
        if bad.is_none() && user.inner.contains_key(&names[3]) {
            nontrivial += 1;
            let mut without = user.clone();
            without.inner.remove(&names[3]);
            without.fill_with_curated();
            group.config = filled.clone();
            let a = rac_ms(group.lint(&doc));
            group.config = without;
            let b = rac_ms(group.lint(&doc));
            if a != b { bad = Some(format!("the unknown rule name in {} changes the lints", json)); }
        }
        if let Some(why) = bad {
            println!("RAC-CEX rule_switches {{\"clause\": \"d\", \"why\": {:?}}}", why);
            panic!("configuration contract violated");
        }
    }
    for a in pool.iter().step_by(3) {
        for b in pool.iter().step_by(5) {
            cases += 1;
            let mut x = a.clone();
            let mut donor = b.clone();
            x.merge_from(&mut donor);
            for n in names.iter() {
                let want = match b.inner.get(n) { Some(Some(v)) => Some(Some(*v)), _ => a.inner.get(n).cloned() };
                if x.inner.get(n).cloned() != want || donor.is_rule_enabled(n) {
                    println!("RAC-CEX rule_switches {{\"clause\": \"d\", \"why\": \"merge_from: key {:?}: base {:?}, other {:?}, result {:?}\"}}", n, a.inner.get(n), b.inner.get(n), x.inner.get(n));
                    panic!("merge contract violated");
                }
            }
        }
    }
    println!("RAC-OK rule_switches cases={} nontrivial={} bound={}-sentences-x-{}-rules;3-random-bipartitions-each;256-user-configurations", cases, nontrivial, sample.len(), keys.len());
}
