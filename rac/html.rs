// Prose words at their true offsets (C04) for the HTML front-end (attached to harper-html/src/lib.rs). BOUNDED:
// documents assembled from <= 3 of 10 segments with declared prose words (text nodes with multi-byte characters,
// attributes, comments, <script> and <style> bodies, entities-free markup): the Word tokens are exactly the declared
// words at their declared character offsets - nothing from tags, attribute values, comments, scripts or styles.
use harper_core::Document;

#[test]
fn rac_html_prose_offsets() {
    let segs: [(&str, &[&str]); 10] = [
        ("<p>alpha beta</p>\n", &["alpha", "beta"]),
        ("<p title=\"attr wörds\">gamma é😀 delta</p>\n", &["gamma", "é", "delta"]),
        ("<script>var teh = \"recieve 😀\"; // colour</script>\n", &[]),
        ("<style>.redd { colour: blu; } /* wörd */</style>\n", &[]),
        ("<!-- hidden wörds 😀 -->\n", &[]),
        ("<div class=\"x\"><b>bold</b> words</div>\n", &["bold", "words"]),
        ("<h1>😀 Heading text</h1>\n", &["Heading", "text"]),
        ("<ul><li>item one</li><li>item two</li></ul>\n", &["item", "one", "item", "two"]),
        ("<br/>\n", &[]),
        ("<p>naïve closing</p>", &["naïve", "closing"]),
    ];
    let parser = HtmlParser::default();
    let mut combos: Vec<Vec<usize>> = vec![vec![]];
    let mut frontier: Vec<Vec<usize>> = vec![vec![]];
    for _ in 0..3 {
        let mut next = vec![];
        for c in &frontier { for i in 0..segs.len() { let mut d = c.clone(); d.push(i); next.push(d); } }
        combos.extend(next.iter().cloned());
        frontier = next;
    }
    let mut cases = 0u64;
    let mut nontrivial = 0u64;
    for c in &combos {
        let mut text = String::new();
        let mut want: Vec<(usize, usize, String)> = vec![];
        for i in c {
            let base = text.chars().count();
            let chars: Vec<char> = segs[*i].0.chars().collect();
            let mut from = 0usize;
            for w in segs[*i].1 {
                let wc: Vec<char> = w.chars().collect();
                let pos = (from..=chars.len() - wc.len()).find(|&k| chars[k..k + wc.len()] == wc[..]).unwrap();
                want.push((base + pos, base + pos + wc.len(), w.to_string()));
                from = pos + wc.len();
            }
            text.push_str(segs[*i].0);
        }
        cases += 1;
        let src: Vec<char> = text.chars().collect();
        let r = std::panic::catch_unwind(std::panic::AssertUnwindSafe(|| {
            let doc = Document::new_curated(&text, &parser);
            doc.get_tokens().iter().filter(|t| matches!(t.kind, TokenKind::Word(_)))
                .map(|t| (t.span.start, t.span.end, src.get(t.span.start..t.span.end).map(|s| s.iter().collect::<String>()).unwrap_or_else(|| "<outside the file>".to_string())))
                .collect::<Vec<_>>()
        }));
        match r {
            Err(_) => { println!("RAC-CEX html_prose_offsets {{\"text\": {:?}, \"why\": \"panicked\"}}", text); panic!("prose-offset contract violated"); }
            Ok(got) => {
                if got != want {
                    let missing: Vec<_> = want.iter().filter(|w| !got.contains(w)).take(3).collect();
                    let extra: Vec<_> = got.iter().filter(|g| !want.contains(g)).take(3).collect();
                    println!("RAC-CEX html_prose_offsets {{\"text\": {:?}, \"why\": \"the word tokens are not exactly the prose words at their offsets\", \"prose_words_missing\": {:?}, \"unexpected_words\": {:?}}}", text, missing, extra);
                    panic!("prose-offset contract violated");
                }
                if !want.is_empty() { nontrivial += 1; }
            }
        }
    }
    println!("RAC-SAMPLE html_prose_offsets {{\"file\": {:?}, \"prose_words\": [\"gamma\", \"é\", \"delta\"]}}", segs[1].0);
    println!("RAC-OK html_prose_offsets cases={} nontrivial={} bound=<=3-of-10-segments-with-known-prose-words", cases, nontrivial);
}
