// Runtime contract check of the comment front-ends (attached to harper-comments/src/comment_parser.rs).
// BOUNDED stand-in for C01/C02 on the tree-sitter path (external C parser, str byte/char bookkeeping):
// for 6 language ids (one per comment-parser flavour: JSDoc, JavaDoc, Go, generic) and every
// concatenation of up to 3 fragments mixing code, comments with multi-byte text, unterminated
// comments and doc tags, building the document returns within the time budget, does not panic, and
// every covering token lies inside the file, in increasing non-overlapping order.
use harper_core::{Document, TokenKind};

#[test]
fn rac_comment_frontends() {
    use std::sync::{Arc, Mutex, mpsc};
    let langs = ["javascript", "java", "go", "rust", "python", "c"];
    let frags = ["// A naïve approach é😀\n", "/* bl😀ck é */ ", "/** See {@link MyClass for é */\n", "/** @param x the naïve {@link A} */\n", "let s = \"é😀\"; ",
                 "# naïve comment\n", "fn f() {}\n", "// plain\n", "/* unterminated é", "x = 1\n", "/// doc é\n", "//go:build x\n", "//\n", "//go:generate é\n// words here\n", "/**\n * Returns the name.\n * <p>\n */\n", "/**\n * @param x é\n *\n */ ", "//! \n", "/*!*/ ", "/*! */\n", "//!\n//! doc é\n",
                 "/**\n * ```js\n * f();\n * ```\n */\n", "/**\n * [guide]: https://x.y\n */\n", "/// ```\n"];
    let current: Arc<Mutex<String>> = Arc::new(Mutex::new(String::new()));
    let cur2 = current.clone();
    let (tx, rx) = mpsc::channel::<Result<(u64, u64), String>>();
    std::thread::spawn(move || {
        let mut texts: Vec<String> = vec![String::new()];
        let mut frontier: Vec<String> = vec![String::new()];
        for _ in 0..3 {
            let mut next = vec![];
            for t in &frontier {
                for f in frags.iter() {
                    next.push(format!("{}{}", t, f));
                }
            }
            texts.extend(next.iter().cloned());
            frontier = next;
        }
        let mut cases = 0u64;
        let mut nontrivial = 0u64;
        for lang in langs.iter() {
            let parser = CommentParser::new_from_language_id(lang, MarkdownOptions::default()).unwrap();
            for t in &texts {
                *cur2.lock().unwrap() = format!("[{}] {}", lang, t);
                let n = t.chars().count();
                let r = std::panic::catch_unwind(std::panic::AssertUnwindSafe(|| {
                    let doc = Document::new_curated(t, &parser);
                    doc.get_tokens().iter().map(|t| (t.span.start, t.span.end, matches!(t.kind, TokenKind::ParagraphBreak | TokenKind::Newline(_)))).collect::<Vec<_>>()
                }));
                cases += 1;
                let mut bad: Option<String> = None;
                match &r {
                    Err(_) => bad = Some("panicked".to_string()),
                    Ok(toks) => {
                        let mut cur = 0usize;
                        for (i, (s, e, brk)) in toks.iter().enumerate() {
                            if s > e || *e > n {
                                bad = Some(format!("token #{} [{}, {}) is outside the file of {} chars", i, s, e, n));
                                break;
                            }
                            if s < e {
                                if *s < cur {
                                    bad = Some(format!("token #{} [{}, {}) overlaps or precedes the previous covering token ending at {}", i, s, e, cur));
                                    break;
                                }
                                cur = *e;
                            } else if !brk {
                                bad = Some(format!("zero-width non-break token #{}", i));
                                break;
                            }
                        }
                        if toks.len() > 2 { nontrivial += 1; }
                    }
                }
                if let Some(why) = bad {
                    let _ = tx.send(Err(format!("{{\"language\": {:?}, \"text\": {:?}, \"why\": {:?}}}", lang, t, why)));
                    return;
                }
            }
        }
        let _ = tx.send(Ok((cases, nontrivial)));
    });
    // progress watchdog: every input takes milliseconds; one input that is still being processed after
    // 20 s counts as "does not terminate" (C01: never hangs)
    let mut last = String::new();
    let mut since = std::time::Instant::now();
    loop {
        match rx.recv_timeout(std::time::Duration::from_secs(1)) {
            Ok(Ok((cases, nontrivial))) => {
                println!("RAC-OK comment_frontends cases={} nontrivial={} bound=6-languages,<=3-of-23-fragments", cases, nontrivial);
                return;
            }
            Ok(Err(cex)) => {
                println!("RAC-CEX comment_frontends {}", cex);
                panic!("comment front-end contract violated");
            }
            Err(mpsc::RecvTimeoutError::Timeout) => {
                let c = current.lock().unwrap().clone();
                if c != last {
                    last = c;
                    since = std::time::Instant::now();
                } else if since.elapsed().as_secs() >= 20 {
                    println!("RAC-CEX comment_frontends {{\"text\": {:?}, \"why\": \"building the document did not terminate within 20 s (other inputs take milliseconds)\"}}", last);
                    panic!("comment front-end hangs");
                }
            }
            Err(mpsc::RecvTimeoutError::Disconnected) => panic!("worker died"),
        }
    }
}
