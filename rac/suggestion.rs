// Runtime contract check of Suggestion::apply (attached to harper-core/src/linting/suggestion.rs):
// result == mathematical splice, for every text of length 0..=5 over {a,b}, every span inside it,
// every suggestion with payload length 0..=3 over {x,y}.
fn rac_texts(alpha: &[char], max: usize) -> Vec<Vec<char>> {
    let mut all = vec![vec![]];
    let mut frontier: Vec<Vec<char>> = vec![vec![]];
    for _ in 0..max {
        let mut next = vec![];
        for t in &frontier {
            for c in alpha {
                let mut u = t.clone();
                u.push(*c);
                next.push(u);
            }
        }
        all.extend(next.iter().cloned());
        frontier = next;
    }
    all
}

fn rac_splice(s: &Suggestion, span: Span, src: &[char]) -> Vec<char> {
    let mut out = vec![];
    match s {
        Suggestion::ReplaceWith(c) => {
            out.extend_from_slice(&src[..span.start]);
            out.extend_from_slice(c);
            out.extend_from_slice(&src[span.end..]);
        }
        Suggestion::InsertAfter(c) => {
            out.extend_from_slice(&src[..span.end]);
            out.extend_from_slice(c);
            out.extend_from_slice(&src[span.end..]);
        }
        Suggestion::Remove => {
            out.extend_from_slice(&src[..span.start]);
            out.extend_from_slice(&src[span.end..]);
        }
    }
    out
}

#[test]
fn rac_suggestion_apply() {
    let texts = rac_texts(&['a', 'b'], 5);
    let payloads = rac_texts(&['x', 'y'], 3);
    let mut cases = 0u64;
    let mut nontrivial = 0u64;
    for t in &texts {
        for start in 0..=t.len() {
            for end in start..=t.len() {
                let span = Span::new(start, end);
                let mut sugg = vec![Suggestion::Remove];
                for p in &payloads {
                    sugg.push(Suggestion::ReplaceWith(p.clone()));
                    sugg.push(Suggestion::InsertAfter(p.clone()));
                }
                for s in &sugg {
                    let want = rac_splice(s, span, t);
                    let mut got = t.clone();
                    let r = std::panic::catch_unwind(std::panic::AssertUnwindSafe(|| s.apply(span, &mut got)));
                    cases += 1;
                    if start < end {
                        nontrivial += 1;
                    }
                    if r.is_err() || got != want {
                        println!(
                            "RAC-CEX suggestion_apply {{\"text\": {:?}, \"span\": [{}, {}], \"suggestion\": {:?}, \"got\": {:?}, \"want\": {:?}, \"panicked\": {}}}",
                            t.iter().collect::<String>(), start, end, s, got.iter().collect::<String>(), want.iter().collect::<String>(), r.is_err()
                        );
                        panic!("apply contract violated");
                    }
                }
            }
        }
    }
    println!("RAC-OK suggestion_apply cases={} nontrivial={} bound=text<=5,payload<=3", cases, nontrivial);
}
