// Runtime contract check of VecExt::remove_indices (attached to harper-core/src/vec_ext.rs).
// The Verus units assume: given strictly increasing indices, all < len, the result is the vector
// with exactly those positions deleted (order and values preserved). Neither verifier can take the
// body (Vec::retain with a stateful closure), so the contract is executed exhaustively for every
// vector length 0..=MAX_LEN and every strictly increasing index list. Elements are the positions
// themselves: the function is generic in T and never inspects an element, so this loses nothing.

const MAX_LEN: usize = 12;

fn expected(len: usize, idx: &[usize]) -> Vec<usize> {
    (0..len).filter(|i| !idx.contains(i)).collect()
}

#[test]
fn rac_remove_indices() {
    let mut cases = 0u64;
    let mut nontrivial = 0u64;
    for len in 0..=MAX_LEN {
        for mask in 0u32..(1u32 << len) {
            let idx: Vec<usize> = (0..len).filter(|i| mask & (1 << i) != 0).collect();
            let mut v: Vec<usize> = (0..len).collect();
            v.remove_indices(idx.iter().copied().collect());
            cases += 1;
            if !idx.is_empty() && idx.len() < len {
                nontrivial += 1;
            }
            let want = expected(len, &idx);
            if v != want {
                println!("RAC-CEX remove_indices {{\"len\": {}, \"indices\": {:?}, \"got\": {:?}, \"want\": {:?}}}", len, idx, v, want);
                panic!("remove_indices contract violated");
            }
        }
    }
    println!("RAC-OK remove_indices cases={} nontrivial={} bound=len<={}", cases, nontrivial, MAX_LEN);
}
