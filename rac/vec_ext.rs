// Runtime contract check of VecExt::remove_indices (attached to harper-core/src/vec_ext.rs).
// The Verus units assume: given strictly increasing indices, all < len, the result is the vector
// with exactly those positions deleted (order and values preserved). Neither verifier can take the
// body (Vec::retain with a stateful closure), so the contract is executed exhaustively for every
// vector length 0..=MAX_LEN and every strictly increasing index list. Elements are the positions
// themselves: the function is generic in T and never inspects an element, so this loses nothing.

const MAX_LEN: usize = 12;

fn expected(len: usize, idx: &[usize]) -> Vec<usize> {
    (0..len).filter(|i| !idx.contains(i)).collect()
}

#[test]
fn rac_remove_indices() {
    let mut cases = 0u64;
    let mut nontrivial = 0u64;
    for len in 0..=MAX_LEN {
        for mask in 0u32..(1u32 << len) {
            let idx: Vec<usize> = (0..len).filter(|i| mask & (1 << i) != 0).collect();
            let mut v: Vec<usize> = (0..len).collect();
            v.remove_indices(idx.iter().copied().collect());
            cases += 1;
            if !idx.is_empty() && idx.len() < len {
                nontrivial += 1;
            }
            let want = expected(len, &idx);
            if v != want {
                println!("RAC-CEX remove_indices {{\"len\": {}, \"indices\": {:?}, \"got\": {:?}, \"want\": {:?}}}", len, idx, v, want);
                panic!("remove_indices contract violated");
            }
        }
    }
    // longer vectors (an implementation may switch strategy with the number of removals): lengths 33..=130, for each
    // 40 pseudo-random index sets of every density, plus "all", "all but one" and "every other"
    let mut x: u64 = 0x9e3779b97f4a7c15;
    for len in (33..=130usize).step_by(7).chain([64usize, 65, 100]) {
        let mut sets: Vec<Vec<usize>> = vec![(0..len).collect(), (1..len).collect(), (0..len - 1).collect(), (0..len).step_by(2).collect(), (1..len).step_by(2).collect()];
        for round in 0..40u64 {
            let density = round % 8 + 1;
            let mut idx = vec![];
            for i in 0..len { x ^= x << 13; x ^= x >> 7; x ^= x << 17; if x % 9 < density { idx.push(i); } }
            sets.push(idx);
        }
        for idx in sets {
            let mut v: Vec<usize> = (0..len).collect();
            v.remove_indices(idx.iter().copied().collect());
            cases += 1;
            if idx.len() > 32 { nontrivial += 1; }
            let want = expected(len, &idx);
            if v != want {
                println!("RAC-CEX remove_indices {{\"len\": {}, \"indices\": {:?}, \"got\": {:?}, \"want\": {:?}}}", len, idx, v, want);
                panic!("remove_indices contract violated");
            }
        }
    }
    println!("RAC-OK remove_indices cases={} nontrivial={} bound=len<={}-exhaustive+len-33..130-sampled", cases, nontrivial, MAX_LEN);
}
