// Runtime contract check of the number-suffix rule end to end (attached to
// harper-core/src/linting/correct_number_suffix.rs). BOUNDED stand-in for the parts of C17 that are not
// under a Verus/Kani contract (lex_number, condense_number_suffixes, CorrectNumberSuffix::lint):
// for every n in a set of 221 integers (0..=125, round years, boundaries of 10^k incl. 10^15, 2^32 +, 2^53 - 120 ..), each
// of the 4 suffixes in 4 letter cases, at 4 positions in a sentence (one after a plain and a hex number), followed by more text or ending the text: a lint is reported exactly when
// the suffix is not the English ordinal suffix of n, it covers exactly the two suffix letters, its
// only suggestion is the correct suffix, and after applying it nothing is reported.
use crate::Document;

fn rac_ordinal(n: u64) -> &'static str {
    let h = n % 100;
    if h == 11 || h == 12 || h == 13 { return "th"; }
    match n % 10 { 1 => "st", 2 => "nd", 3 => "rd", _ => "th" }
}

#[test]
fn rac_number_suffix_rule() {
    let mut ns: Vec<u64> = (0..=125).collect();
    for k in [1_000u64, 10_000, 100_000, 1_000_000, 1u64 << 32, 1u64 << 40, 1_000_000_000_000_000, (1u64 << 53) - 120] {
        for d in [1u64, 2, 3, 4, 11, 12, 13, 21, 101, 111, 112] { ns.push(k + d); }
    }
    ns.extend([1000u64, 1990, 2000, 2020, 1980, 10_000, 1_000_000]);
    let prefixes = ["", "She finished in ", "On the \"big\" day, the ", "I bought 3 apples and 0x1F pears on the "];
    let tails = [" place.", ""];
    let mut cases = 0u64;
    let mut nontrivial = 0u64;
    for n in &ns {
        // 4-digit decades such as 1980s are a different token kind by design; skip numbers the decade lexer claims
        for suf in ["st", "nd", "rd", "th"] {
            for case in 0..4 {
                let s: String = suf.chars().enumerate().map(|(i, c)| if case & (1 << i) != 0 { c.to_ascii_uppercase() } else { c }).collect();
                for (p, tail) in prefixes.iter().flat_map(|p| tails.iter().map(move |t| (p, t))) {
                    let text = format!("{}{}{}{}", p, n, s, tail);
                    let chars: Vec<char> = text.chars().collect();
                    let doc = Document::new_plain_english_curated(&text);
                    let lints = CorrectNumberSuffix.lint(&doc);
                    cases += 1;
                    let num_start = p.chars().count();
                    let suffix_start = num_start + n.to_string().len();
                    let want = rac_ordinal(*n);
                    let wrong = suf != want;
                    let mut bad: Option<String> = None;
                    if wrong {
                        nontrivial += 1;
                        if lints.len() != 1 {
                            bad = Some(format!("expected exactly one lint, got {}", lints.len()));
                        } else {
                            let l = &lints[0];
                            if l.span.start != suffix_start || l.span.end != suffix_start + 2 {
                                bad = Some(format!("lint span [{}, {}) is not the suffix [{}, {})", l.span.start, l.span.end, suffix_start, suffix_start + 2));
                            } else if l.suggestions.len() != 1 || l.suggestions[0] != Suggestion::ReplaceWith(want.chars().collect()) {
                                bad = Some(format!("suggestions {:?} are not exactly ReplaceWith({:?})", l.suggestions, want));
                            } else {
                                let mut fixed = chars.clone();
                                l.suggestions[0].apply(l.span, &mut fixed);
                                let fixed_text: String = fixed.iter().collect();
                                let again = CorrectNumberSuffix.lint(&Document::new_plain_english_curated(&fixed_text));
                                if !again.is_empty() {
                                    bad = Some(format!("after applying the suggestion ({:?}) the rule still reports {} lint(s)", fixed_text, again.len()));
                                }
                            }
                        }
                    } else if !lints.is_empty() {
                        bad = Some(format!("correct ordinal flagged: {:?}", lints[0].span));
                    }
                    if let Some(why) = bad {
                        println!("RAC-CEX number_suffix_rule {{\"text\": {:?}, \"why\": {:?}}}", text, why);
                        panic!("number suffix rule contract violated");
                    }
                }
            }
        }
    }
    // two ordinals in one document: each is judged on its own
    let small = [1u64, 2, 3, 4, 11, 12, 13, 21, 22, 101, 112];
    for a in small.iter() {
        for sa in ["st", "nd", "rd", "th"] {
            for b in small.iter() {
                for sb in ["st", "nd", "rd", "th"] {
                    let text = format!("We came {}{} in May, {}{} in June.", a, sa, b, sb);
                    let doc = Document::new_plain_english_curated(&text);
                    let lints = CorrectNumberSuffix.lint(&doc);
                    cases += 1;
                    let mut want: Vec<(usize, usize)> = vec![];
                    let pa = "We came ".len() + a.to_string().len();
                    if sa != rac_ordinal(*a) { want.push((pa, pa + 2)); }
                    let pb = format!("We came {}{} in May, ", a, sa).len() + b.to_string().len();
                    if sb != rac_ordinal(*b) { want.push((pb, pb + 2)); }
                    let mut got: Vec<(usize, usize)> = lints.iter().map(|l| (l.span.start, l.span.end)).collect();
                    got.sort();
                    if !want.is_empty() { nontrivial += 1; }
                    if got != want {
                        println!("RAC-CEX number_suffix_rule {{\"text\": {:?}, \"why\": \"lint spans {:?}, expected {:?}\"}}", text, got, want);
                        panic!("number suffix rule contract violated");
                    }
                }
            }
        }
    }
    println!("RAC-OK number_suffix_rule cases={} nontrivial={} bound=221-integers-x-16-suffix-variants-x-8-positions+2-ordinals-per-text", cases, nontrivial);
}

// ---- single-shape probes (own obligations, see known_findings.txt): an ordinal directly followed by a possessive 's, and an
// ordinal inside square brackets. The rule must report exactly the listed spans. ----
fn rac_c17_probe(name: &str, cases: &[(&str, &[(usize, usize)])]) {
    let mut failing = vec![];
    for (text, want) in cases {
        let got = std::panic::catch_unwind(|| {
            let doc = Document::new_plain_english_curated(text);
            let mut g: Vec<(usize, usize)> = CorrectNumberSuffix.lint(&doc).iter().map(|l| (l.span.start, l.span.end)).collect();
            g.sort();
            g
        });
        let ok = matches!(&got, Ok(g) if g == &want.to_vec());
        if !ok { failing.push(format!("{{\"text\": {:?}, \"expected_lint_spans\": {:?}, \"got\": {:?}}}", text, want, got.ok())); }
    }
    if !failing.is_empty() {
        println!("RAC-CEX {} [{}]", name, failing.join(", "));
        panic!("number suffix rule contract violated");
    }
    println!("RAC-OK {} cases={} nontrivial={} bound={}-fixed-text(s)", name, cases.len(), cases.len(), cases.len());
}
#[test]
fn rac_c17_possessive() {
    rac_c17_probe("c17_possessive", &[("The 2st's turn.", &[(5, 7)]), ("The 2st\u{2019}s turn.", &[(5, 7)]), ("The 2nd's turn.", &[])]);
}
#[test]
fn rac_c17_bracketed() {
    rac_c17_probe("c17_bracketed", &[("See [2st] here.", &[(6, 8)]), ("See [11st] here.", &[(7, 9)]), ("See [2nd] here.", &[])]);
}
