// Runtime contract check of the Typst front-end (attached to harper-typst/src/lib.rs). BOUNDED stand-in for C01
// (typst-syntax is external): nested expressions, strings, markup, math and multi-byte text: the parser returns
// within the time budget, emits a number of tokens linear in the input (<= 8 per character + 16), and every covering
// token lies inside the file in increasing non-overlapping order.
use harper_core::{Document, TokenKind};

#[test]
fn rac_typst_frontend() {
    use std::sync::{Arc, Mutex, mpsc};
    let frags = ["Some words é here. ", "#let x = 1\n", "*bold 😀* ", "$x^2$ ", "#(\"text in string\") ", "= Heading\n", "#f(a, b: \"str é\")[content here] ", "`raw` ", "\n\n", "- item one\n"];
    let current: Arc<Mutex<String>> = Arc::new(Mutex::new(String::new()));
    let cur2 = current.clone();
    let (tx, rx) = mpsc::channel::<Result<(u64, u64), String>>();
    std::thread::spawn(move || {
        let mut texts: Vec<String> = vec![String::new()];
        let mut frontier: Vec<String> = vec![String::new()];
        for _ in 0..3 {
            let mut next = vec![];
            for t in &frontier { for f in frags.iter() { next.push(format!("{}{}", t, f)); } }
            texts.extend(next.iter().cloned());
            frontier = next;
        }
        // deeply nested parentheses / content blocks / function calls
        for d in 1..=22usize {
            texts.push(format!("#{}\"a word\"{}", "(".repeat(d), ")".repeat(d)));
            texts.push(format!("#{}1{}", "(".repeat(d), ")".repeat(d)));
            texts.push(format!("{}deep words{}", "#[".repeat(d), "]".repeat(d)));
        }
        let mut cases = 0u64;
        let mut nontrivial = 0u64;
        for t in &texts {
            *cur2.lock().unwrap() = t.clone();
            let n = t.chars().count();
            let r = std::panic::catch_unwind(std::panic::AssertUnwindSafe(|| {
                let doc = Document::new_curated(t, &Typst);
                doc.get_tokens().iter().map(|t| (t.span.start, t.span.end, matches!(t.kind, TokenKind::ParagraphBreak | TokenKind::Newline(_)))).collect::<Vec<_>>()
            }));
            cases += 1;
            let mut bad: Option<String> = None;
            match &r {
                Err(_) => bad = Some("panicked".to_string()),
                Ok(toks) => {
                    if toks.len() > 8 * n + 16 { bad = Some(format!("{} tokens for {} characters (super-linear blow-up)", toks.len(), n)); }
                    let mut cur = 0usize;
                    for (i, (s, e, brk)) in toks.iter().enumerate() {
                        if s > e || *e > n { bad = Some(format!("token #{} [{}, {}) is outside the file of {} chars", i, s, e, n)); break; }
                        if s < e {
                            if *s < cur { bad = Some(format!("token #{} [{}, {}) overlaps or precedes the previous covering token ending at {}", i, s, e, cur)); break; }
                            cur = *e;
                        } else if !brk { bad = Some(format!("zero-width non-break token #{}", i)); break; }
                    }
                    if toks.len() > 2 { nontrivial += 1; }
                }
            }
            if let Some(why) = bad {
                let _ = tx.send(Err(format!("{{\"text\": {:?}, \"why\": {:?}}}", t, why)));
                return;
            }
        }
        let _ = tx.send(Ok((cases, nontrivial)));
    });
    match rx.recv_timeout(std::time::Duration::from_secs(240)) {
        Ok(Ok((cases, nontrivial))) => println!("RAC-OK typst_frontend cases={} nontrivial={} bound=<=3-of-10-fragments+nesting-depth<=22", cases, nontrivial),
        Ok(Err(cex)) => { println!("RAC-CEX typst_frontend {}", cex); panic!("typst front-end contract violated"); }
        Err(_) => { println!("RAC-CEX typst_frontend {{\"text\": {:?}, \"why\": \"did not terminate within 240 s\"}}", current.lock().unwrap().clone()); panic!("typst front-end hangs"); }
    }
}
