// Runtime contract check of the Typst front-end (attached to harper-typst/src/lib.rs). BOUNDED stand-in for C01
// (typst-syntax is external): nested expressions, strings, markup, math and multi-byte text: the parser returns
// within the time budget, emits a number of tokens linear in the input (<= 8 per character + 16), and every covering
// token lies inside the file in increasing non-overlapping order.
use harper_core::{Document, TokenKind};

#[test]
fn rac_typst_frontend() {
    use std::sync::{Arc, Mutex, mpsc};
    let frags = ["Some words é here. ", "#let x = 1\n", "*bold 😀* ", "$x^2$ ", "#(\"text in string\") ", "= Heading\n", "#f(a, b: \"str é\")[content here] ", "`raw` ", "\n\n", "- item one\n",
                 // show / set rules: selector before transform, arguments before the condition
                 "#show \"and\": [and] ", "#set text(size: 12pt) if true\n", "#show heading: it => [the the #it]\n"];
    let current: Arc<Mutex<String>> = Arc::new(Mutex::new(String::new()));
    let cur2 = current.clone();
    let (tx, rx) = mpsc::channel::<Result<(u64, u64), String>>();
    std::thread::spawn(move || {
        let mut texts: Vec<String> = vec![String::new()];
        let mut frontier: Vec<String> = vec![String::new()];
        for _ in 0..3 {
            let mut next = vec![];
            for t in &frontier { for f in frags.iter() { next.push(format!("{}{}", t, f)); } }
            texts.extend(next.iter().cloned());
            frontier = next;
        }
        // deeply nested parentheses / content blocks / function calls
        for d in 1..=22usize {
            texts.push(format!("#{}\"a word\"{}", "(".repeat(d), ")".repeat(d)));
            texts.push(format!("#{}1{}", "(".repeat(d), ")".repeat(d)));
            texts.push(format!("{}deep words{}", "#[".repeat(d), "]".repeat(d)));
        }
        let mut cases = 0u64;
        let mut nontrivial = 0u64;
        for t in &texts {
            *cur2.lock().unwrap() = t.clone();
            let n = t.chars().count();
            let r = std::panic::catch_unwind(std::panic::AssertUnwindSafe(|| {
                let doc = Document::new_curated(t, &Typst);
                doc.get_tokens().iter().map(|t| (t.span.start, t.span.end, matches!(t.kind, TokenKind::ParagraphBreak | TokenKind::Newline(_)))).collect::<Vec<_>>()
            }));
            cases += 1;
            let mut bad: Option<String> = None;
            match &r {
                Err(_) => bad = Some("panicked".to_string()),
                Ok(toks) => {
                    if toks.len() > 8 * n + 16 { bad = Some(format!("{} tokens for {} characters (super-linear blow-up)", toks.len(), n)); }
                    let mut cur = 0usize;
                    for (i, (s, e, brk)) in toks.iter().enumerate() {
                        if s > e || *e > n { bad = Some(format!("token #{} [{}, {}) is outside the file of {} chars", i, s, e, n)); break; }
                        if s < e {
                            if *s < cur { bad = Some(format!("token #{} [{}, {}) overlaps or precedes the previous covering token ending at {}", i, s, e, cur)); break; }
                            cur = *e;
                        } else if !brk { bad = Some(format!("zero-width non-break token #{}", i)); break; }
                    }
                    if toks.len() > 2 { nontrivial += 1; }
                }
            }
            if let Some(why) = bad {
                let _ = tx.send(Err(format!("{{\"text\": {:?}, \"why\": {:?}}}", t, why)));
                return;
            }
        }
        let _ = tx.send(Ok((cases, nontrivial)));
    });
    match rx.recv_timeout(std::time::Duration::from_secs(240)) {
        Ok(Ok((cases, nontrivial))) => println!("RAC-OK typst_frontend cases={} nontrivial={} bound=<=3-of-13-fragments+nesting-depth<=22", cases, nontrivial),
        Ok(Err(cex)) => { println!("RAC-CEX typst_frontend {}", cex); panic!("typst front-end contract violated"); }
        Err(_) => { println!("RAC-CEX typst_frontend {{\"text\": {:?}, \"why\": \"did not terminate within 240 s\"}}", current.lock().unwrap().clone()); panic!("typst front-end hangs"); }
    }
}

// Prose words at their true offsets (C04) for Typst: documents assembled from <= 3 of 9 segments with declared prose
// words (markup text with astral and other multi-byte characters, headings, emphasis, code, math, raw text, strings in
// function calls): every declared prose word is a Word token at its declared character offset, and every Word token
// lies inside the file and spells the characters at its span (strings passed to functions may or may not be prose,
// so only the declared words are demanded, not exactness).
#[test]
fn rac_typst_prose_offsets() {
    let segs: [(&str, &[&str]); 9] = [
        ("Some 😀 words here.\n\n", &["Some", "words", "here"]),
        ("= Heading 😀 text\n\n", &["Heading", "text"]),
        ("*bold é😀 emphasis* stays\n\n", &["bold", "é", "emphasis", "stays"]),
        ("#let x = 1\n", &[]),
        ("$x^2$ ", &[]),
        ("`raw 😀` ", &[]),
        ("- item 😀 one\n- item two\n\n", &["item", "one", "item", "two"]),
        ("naïve closing words\n\n", &["naïve", "closing", "words"]),
        ("𝒳 astral start then text\n\n", &["astral", "start", "then", "text"]),
    ];
    let mut combos: Vec<Vec<usize>> = vec![vec![]];
    let mut frontier: Vec<Vec<usize>> = vec![vec![]];
    for _ in 0..3 {
        let mut next = vec![];
        for c in &frontier { for i in 0..segs.len() { let mut d = c.clone(); d.push(i); next.push(d); } }
        combos.extend(next.iter().cloned());
        frontier = next;
    }
    let mut cases = 0u64;
    let mut nontrivial = 0u64;
    for c in &combos {
        let mut text = String::new();
        let mut want: Vec<(usize, usize, String)> = vec![];
        for i in c {
            let base = text.chars().count();
            let chars: Vec<char> = segs[*i].0.chars().collect();
            let mut from = 0usize;
            for w in segs[*i].1 {
                let wc: Vec<char> = w.chars().collect();
                let pos = (from..=chars.len() - wc.len()).find(|&k| chars[k..k + wc.len()] == wc[..]).unwrap();
                want.push((base + pos, base + pos + wc.len(), w.to_string()));
                from = pos + wc.len();
            }
            text.push_str(segs[*i].0);
        }
        cases += 1;
        let src: Vec<char> = text.chars().collect();
        let r = std::panic::catch_unwind(std::panic::AssertUnwindSafe(|| {
            let doc = Document::new_curated(&text, &Typst);
            doc.get_tokens().iter().filter(|t| matches!(t.kind, TokenKind::Word(_)))
                .map(|t| (t.span.start, t.span.end, src.get(t.span.start..t.span.end).map(|s| s.iter().collect::<String>()).unwrap_or_else(|| "<outside the file>".to_string())))
                .collect::<Vec<_>>()
        }));
        match r {
            Err(_) => { println!("RAC-CEX typst_prose_offsets {{\"text\": {:?}, \"why\": \"panicked\"}}", text); panic!("prose-offset contract violated"); }
            Ok(got) => {
                let missing: Vec<_> = want.iter().filter(|w| !got.contains(w)).take(3).collect();
                let garbled: Vec<_> = got.iter().filter(|g| g.2 == "<outside the file>" || !g.2.chars().all(|ch| ch.is_alphabetic() || ch == '\'' || ch.is_ascii_digit())).take(3).collect();
                if !missing.is_empty() || !garbled.is_empty() {
                    println!("RAC-CEX typst_prose_offsets {{\"text\": {:?}, \"why\": \"a prose word is not a word token at its offset, or a word token does not spell a word\", \"prose_words_missing\": {:?}, \"garbled_words\": {:?}}}", text, missing, garbled);
                    panic!("prose-offset contract violated");
                }
                if !want.is_empty() { nontrivial += 1; }
            }
        }
    }
    println!("RAC-SAMPLE typst_prose_offsets {{\"file\": {:?}, \"prose_words\": [\"Some\", \"words\", \"here\"]}}", segs[0].0);
    println!("RAC-OK typst_prose_offsets cases={} nontrivial={} bound=<=3-of-9-segments-with-known-prose-words", cases, nontrivial);
}
