"""Runtime-contract-check programs (run against the real code through a #[cfg(test)] overlay)."""
CORE = 'harper-core'
S = 'harper-core/src/'
RAC = {
    'remove_indices': dict(crate=CORE, attach=S + 'vec_ext.rs', file='vec_ext.rs', test='rac_remove_indices', function='VecExt::remove_indices'),
    'suggestion_apply': dict(crate=CORE, attach=S + 'linting/suggestion.rs', file='suggestion.rs', test='rac_suggestion_apply', function='Suggestion::apply'),
    'remove_overlaps': dict(crate=CORE, attach=S + 'lib.rs', file='overlaps.rs', test='rac_remove_overlaps', function='remove_overlaps'),
    'edit_distance': dict(crate=CORE, attach=S + 'edit_distance.rs', file='edit_distance.rs', test='rac_edit_distance', function='edit_distance_min_alloc'),
    'lexers': dict(crate=CORE, attach=S + 'lexing/mod.rs', file='lexing.rs', test='rac_lexers', function='lex_*'),
    'lexer_literals': dict(crate=CORE, attach=S + 'lexing/mod.rs', file='lexing.rs', test='rac_lexer_literals', needs_lex_literals=True, function='lex_* / lex_token / PlainEnglish::parse on literals harvested from lexing/*.rs'),
    'plain_english_tiles': dict(crate=CORE, attach=S + 'lexing/mod.rs', file='lexing.rs', test='rac_plain_english_tiles', function='PlainEnglish::parse'),
    'pattern_contract': dict(crate=CORE, attach=S + 'linting/pattern_linter.rs', file='patterns.rs', test='rac_pattern_contract', function='Pattern::matches'),
    'merged_union': dict(crate=CORE, attach=S + 'spell/merged_dictionary.rs', file='merged_dictionary.rs', test='rac_merged_union', function='MergedDictionary'),
    'document_tiles': dict(crate=CORE, attach=S + 'document.rs', file='document.rs', test='rac_document_tiles', function='Document::parse (condensing passes)'),
    'url_scanner': dict(crate=CORE, attach=S + 'lexing/mod.rs', file='lexing.rs', test='rac_url_scanner', function='lex_url'),
    'markdown_tokens': dict(crate=CORE, attach=S + 'parsers/markdown.rs', file='markdown.rs', test='rac_markdown_tokens', function='Markdown::parse'),
    'comment_frontends': dict(crate='harper-comments', attach='harper-comments/src/comment_parser.rs', file='comments.rs', test='rac_comment_frontends', function='CommentParser (tree-sitter mask + JSDoc/JavaDoc/Go/Unit comment parsers)'),
    'number_suffix_rule': dict(crate=CORE, attach=S + 'linting/correct_number_suffix.rs', file='number_suffix.rs', test='rac_number_suffix_rule', function='CorrectNumberSuffix::lint + condense_number_suffixes + lex_number'),
    'c17_possessive': dict(crate=CORE, attach=S + 'linting/correct_number_suffix.rs', file='number_suffix.rs', test='rac_c17_possessive', function='CorrectNumberSuffix::lint + condense_contractions (ordinal followed by a possessive)'),
    'c17_bracketed': dict(crate=CORE, attach=S + 'linting/correct_number_suffix.rs', file='number_suffix.rs', test='rac_c17_bracketed', function='CorrectNumberSuffix::lint + lex_regexish (ordinal inside square brackets)'),
    'lint_group_cache': dict(crate=CORE, attach=S + 'linting/lint_group.rs', file='lint_group.rs', test='rac_lint_group_cache', needs_corpus=True, function='LintGroup::lint (chunk cache rebase)'),
    'lsp_glue': dict(crate='harper-ls', attach='harper-ls/src/document_state.rs', file='document_state.rs', test='rac_lsp_glue', target=['--bin', 'harper-ls'], function='DocumentState::generate_diagnostics / generate_code_actions / lint_to_code_actions'),
    'fuzzy_backends': dict(crate=CORE, attach=S + 'spell/fst_dictionary.rs', file='fuzzy.rs', test='rac_fuzzy_backends', function='FstDictionary / MutableDictionary (exact queries, fuzzy_match)'),
    'condense_indices': dict(crate=CORE, attach=S + 'document.rs', file='document.rs', test='rac_condense_indices', function='Document::condense_indices'),
    'edit_distance_long': dict(crate=CORE, attach=S + 'edit_distance.rs', file='edit_distance.rs', test='rac_edit_distance_long', function='edit_distance (beyond the proved bound)'),
    'rule_spans': dict(crate=CORE, attach=S + 'linting/lint_group.rs', file='lint_group.rs', test='rac_rule_spans', needs_corpus=True, function='every curated rule (lint spans and suggestions)'),
    'lhs_frontend': dict(crate='harper-literate-haskell', attach='harper-literate-haskell/src/lib.rs', file='lhs.rs', test='rac_lhs_frontend', function='LiterateHaskellParser / LiterateHaskellMasker'),
    'currency_conflict_free': dict(crate=CORE, attach=S + 'linting/currency_placement.rs', file='currency.rs', test='rac_currency_conflict_free', function='CurrencyPlacement::lint (caller of remove_overlaps)'),
    'mask_push': dict(crate=CORE, attach=S + 'mask/mod.rs', file='mask.rs', test='rac_mask_push', function='Mask::push_allowed'),
    'stats_roundtrip': dict(crate='harper-stats', attach='harper-stats/src/lib.rs', file='stats.rs', test='rac_stats_roundtrip', function='Stats::write / Stats::read / Stats::summarize'),
    'title_case': dict(crate=CORE, attach=S + 'title_case.rs', file='title_case.rs', test='rac_title_case', function='make_title_case_str / make_title_case / should_capitalize_token'),
    'ignored_lints': dict(crate=CORE, attach=S + 'ignored_lints/mod.rs', file='ignored.rs', test='rac_ignored_lints', needs_corpus=True, function='IgnoredLints::{ignore_lint, is_ignored, remove_ignored} + LintContext::from_lint'),
    'rule_switches': dict(crate=CORE, attach=S + 'linting/lint_group.rs', file='rule_switches.rs', test='rac_rule_switches', needs_corpus=True, function='LintGroup::lint (is_rule_enabled gates) + LintGroupConfig::{merge_from, fill_with_curated, set_*, is_rule_enabled}'),
    'paragraph_independence': dict(crate=CORE, attach=S + 'linting/lint_group.rs', file='paragraphs.rs', test='rac_paragraph_independence', needs_corpus=True, function='LintGroup::lint over Document::new (whole pipeline, relational)'),
    'spell_check': dict(crate=CORE, attach=S + 'linting/spell_check.rs', file='spell_check.rs', test='rac_spell_check', function='SpellCheck::lint + Document::parse (dictionary metadata) + suggest_correct_spelling'),
    'wasm_api': dict(crate='harper-wasm', attach='harper-wasm/src/lib.rs', file='wasm_api.rs', test='rac_wasm_api', function='harper_wasm::Linter::{lint, apply_suggestion, ignore_lint, export/import_ignored_lints, import/export_words, set_lint_config_from_json}, to_title_case, to_json/from_json'),
    'mask_merge': dict(crate=CORE, attach=S + 'mask/mod.rs', file='mask.rs', test='rac_mask_merge', function='Mask::merge_whitespace_sep'),
    'prose_offsets': dict(crate='harper-comments', attach='harper-comments/src/comment_parser.rs', file='prose_offsets.rs', test='rac_prose_offsets', function='CommentParser::parse (tree-sitter mask + comment parsers) and Markdown::parse: prose words at their true offsets'),
    'c04_jsdoc_fence': dict(crate='harper-comments', attach='harper-comments/src/comment_parser.rs', file='prose_offsets.rs', test='rac_c04_jsdoc_fence', function='JsDoc::parse (a code fence inside a JS/TS doc comment)'),
    'c04_tilde_fence': dict(crate='harper-comments', attach='harper-comments/src/comment_parser.rs', file='prose_offsets.rs', test='rac_c04_tilde_fence', function='unit::line_is_code_fence (CommonMark ~~~ fences)'),
    'c04_go_directive': dict(crate='harper-comments', attach='harper-comments/src/comment_parser.rs', file='prose_offsets.rs', test='rac_c04_go_directive', function='Go::parse (//go: directive lines that are not the first line of the comment group)'),
    'c04_javadoc_pre': dict(crate='harper-comments', attach='harper-comments/src/comment_parser.rs', file='prose_offsets.rs', test='rac_c04_javadoc_pre', function='JavaDoc::parse / HtmlParser (<pre> blocks)'),
    'c04_javadoc_return': dict(crate='harper-comments', attach='harper-comments/src/comment_parser.rs', file='prose_offsets.rs', test='rac_c04_javadoc_return', function='JavaDoc::parse (block tag marking of `@return <prose>`)'),
    'c04_fixed_files': dict(crate='harper-comments', attach='harper-comments/src/comment_parser.rs', file='prose_offsets.rs', test='rac_c04_fixed_files', function='CommentParser::parse on fixed files (mixed fences, leading links, go directive)'),
    'lhs_prose_offsets': dict(crate='harper-literate-haskell', attach='harper-literate-haskell/src/lib.rs', file='lhs.rs', test='rac_lhs_prose_offsets', function='LiterateHaskellParser (masker + parsers::Mask::parse + Markdown): prose words at their true offsets'),
    'html_prose_offsets': dict(crate='harper-html', attach='harper-html/src/lib.rs', file='html.rs', test='rac_html_prose_offsets', function='HtmlParser (tree-sitter text nodes + parsers::Mask::parse): prose words at their true offsets'),
    'typst_prose_offsets': dict(crate='harper-typst', attach='harper-typst/src/lib.rs', file='typst.rs', test='rac_typst_prose_offsets', function='Typst parser (typst_translator, offset_cursor): prose words at their true offsets'),
    'typst_frontend': dict(crate='harper-typst', attach='harper-typst/src/lib.rs', file='typst.rs', test='rac_typst_frontend', function='Typst parser (typst_translator, offset_cursor)'),
}
# Verus piece name -> runtime contract checks that exercise the same clause on the real code
RAC_FOR_FUNCTION = {
    'Suggestion::apply': ['suggestion_apply'],
    'remove_overlaps': ['remove_overlaps'],
    'Vec::remove_indices': ['remove_indices'],
    'edit_distance_min_alloc': ['edit_distance'],
    'edit_distance': ['edit_distance'],
    'PlainEnglish::parse': ['plain_english_tiles', 'lexers'],
    'lex_token': ['lexers', 'plain_english_tiles'],
    'run_on_chunk': ['pattern_contract'],
    'P::find_all_matches': ['pattern_contract'],
}
for _f in ('lex_regexish', 'lex_long_decade', 'lex_plural_digit', 'lex_quote', 'lex_punctuation', 'lex_catch', 'lex_word', 'lex_tabs', 'lex_spaces', 'lex_newlines'):
    RAC_FOR_FUNCTION[_f] = ['lexers', 'plain_english_tiles']
for _t in ('Invert', 'SequencePattern', 'RepeatingPattern', 'EitherPattern', 'All', 'AnyPattern', 'ConsumesRemainingPattern', 'NominalPhrase',
           'ExactPhrase', 'IndefiniteArticle', 'PatternMap'):
    RAC_FOR_FUNCTION[_t + '::matches'] = ['pattern_contract']
for _f in ('contains_word', 'contains_exact_word', 'get_correct_capitalization_of', 'get_word_metadata'):
    RAC_FOR_FUNCTION['MergedDictionary::' + _f] = ['merged_union']

# unit -> runtime contract checks to fall back on when the unit cannot be decided by Verus at all
# (extraction anchor lost, construct unsupported after a rewrite): a concrete failing input found on
# the real code is still a violation; no hit leaves the run undecided (exit 2).
for _f in ('lex_escaped', 'lex_uchar', 'lex_xchar', 'lex_xchar_string', 'is_xchar_string', 'is_uchar_plus_string', 'lex_login', 'lex_url', 'lex_hostname_token', 'lex_hostname', 'lex_email_address'):
    RAC_FOR_FUNCTION[_f] = ['url_scanner', 'lexers', 'lexer_literals']

RAC_FOR_FUNCTION['Mask::push_allowed'] = ['mask_push']
RAC_FOR_FUNCTION['Mask::new_blank'] = ['mask_push']
RAC_FOR_FUNCTION['Mask::merge_whitespace_sep'] = ['mask_merge']
RAC_FOR_FUNCTION['Mask::parse'] = ['comment_frontends', 'lhs_frontend']
RAC_FOR_FUNCTION['lemma_append_shifted'] = ['comment_frontends', 'lhs_frontend']
RAC_FOR_FUNCTION['lemma_merge_step'] = ['mask_merge']
for _f in ('CorrectNumberSuffix::lint', 'NumberSuffix::from_chars', 'NumberSuffix::to_chars'):
    RAC_FOR_FUNCTION[_f] = ['number_suffix_rule']
RAC_FOR_FUNCTION['parse_inline_tag'] = ['comment_frontends']
RAC_FOR_FUNCTION['LiterateHaskellMasker::create_mask'] = ['lhs_frontend']
RAC_FOR_FUNCTION['GitCommitParser::parse'] = []
for _f in ('Unit::parse', 'Go::parse', 'JsDoc::parse', 'JavaDoc::parse', 'HtmlParser::parse', 'parse_line', 'mark_inline_tags', 'line_is_code_fence', 'without_initiators'):
    RAC_FOR_FUNCTION[_f] = ['comment_frontends']
RAC_FOR_FUNCTION['index_to_position'] = ['lsp_glue']
RAC_FOR_FUNCTION['span_to_range'] = ['lsp_glue']
RAC_FOR_FUNCTION['lex_ip_schemepart'] = ['url_scanner', 'lexers']
RAC_FOR_FUNCTION['lex_hostport'] = ['url_scanner', 'lexers', 'lexer_literals']
RAC_FOR_FUNCTION['lex_hex_number'] = ['lexers', 'lexer_literals', 'document_tiles']

UNIT_RAC = {
    'lhs_masker': ['lhs_frontend'],
    'comments_doc': ['comment_frontends'],
    'comments': ['comment_frontends'],
    'pos_conv': ['lsp_glue'],
    'vec_ext': ['remove_indices'],
    'mask': ['mask_push', 'mask_merge'],
    'mask_parser': ['comment_frontends', 'lhs_frontend'],
    'number': ['number_suffix_rule'],
    'number_lint': ['number_suffix_rule'],
    'jsdoc': ['comment_frontends'],
    'overlaps32': ['remove_overlaps', 'remove_indices'],
    'span': [],
    'document': ['document_tiles', 'condense_indices'],
    'url': ['url_scanner', 'lexers', 'lexer_literals'],
    'hex_number': ['lexers', 'lexer_literals', 'document_tiles'],
    'suggestion': ['suggestion_apply'],
    'overlaps': ['remove_overlaps', 'remove_indices'],
    'edit_distance': ['edit_distance'],
    'lexing': ['lexers', 'plain_english_tiles', 'lexer_literals'],
    'patterns': ['pattern_contract'],
    'merged_dictionary': ['merged_union'],
}
for _f in ('condense_spaces', 'condense_newlines', 'condense_dotted_initialisms', 'condense_number_suffixes', 'condense_indices', 'get_span_content', 'match_quotes', 'newlines_to_breaks'):
    RAC_FOR_FUNCTION['Document::' + _f] = ['document_tiles', 'condense_indices']
