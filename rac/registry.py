"""Runtime-contract-check programs (run against the real code through a #[cfg(test)] overlay)."""
CORE = 'harper-core'
RAC = {
    'remove_indices': dict(crate=CORE, attach='harper-core/src/vec_ext.rs', file='vec_ext.rs', test='rac_remove_indices', function='VecExt::remove_indices'),
}
