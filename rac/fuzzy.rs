// Runtime contract check of the dictionary back-ends (attached to harper-core/src/spell/fst_dictionary.rs).
// BOUNDED stand-in for the parts of C15 that live in fst / levenshtein_automata / hashbrown code:
// for every dictionary drawn from all subsets (size 1..=3) of 9 words over {a, b, A}, both back-ends
// (FstDictionary, MutableDictionary), every query of length 0..=3 over {a, b, A, x}, distance bounds
// 0..=2 and caps {1, 3, 100}:
//   * membership, exact membership, canonical spelling agree between FST and mutable back-ends;
//   * every fuzzy result is a dictionary word whose reported distance is the true Levenshtein distance
//     to the query or to its lower-case form, within the bound; results are ordered by distance and
//     capped;
//   * for lower-case queries the mutable back-end misses no dictionary word within the bound (cap 100).
use crate::{MutableDictionary, WordMetadata};

fn rac_lev(a: &[char], b: &[char]) -> u8 {
    let mut m = vec![vec![0u32; b.len() + 1]; a.len() + 1];
    for i in 0..=a.len() { m[i][0] = i as u32; }
    for j in 0..=b.len() { m[0][j] = j as u32; }
    for i in 1..=a.len() { for j in 1..=b.len() {
        let c = if a[i - 1] == b[j - 1] { 0 } else { 1 };
        m[i][j] = (m[i - 1][j] + 1).min(m[i][j - 1] + 1).min(m[i - 1][j - 1] + c);
    } }
    m[a.len()][b.len()] as u8
}

#[test]
fn rac_fuzzy_backends() {
    let mut cases = 0u64;
    let mut nontrivial = 0u64;
    // two universes: ASCII words with capitals; words with multi-byte letters and the one capital whose lower-case form is two
    // characters (U+0130). No two words differ only in case (such words share one dictionary entry).
    let configs: Vec<(Vec<&str>, Vec<char>)> = vec![
        (vec!["a", "ab", "abb", "Abx", "ba", "b", "aab", "Bab", "xA"], vec!['a', 'b', 'A', 'x']),
        (vec!["é", "éa", "aé", "ia", "café", "éé"], vec!['é', 'a', 'i', '\u{130}']),
    ];
    for (universe, alpha) in configs.iter() {
    let mut queries: Vec<Vec<char>> = vec![vec![]];
    let mut frontier: Vec<Vec<char>> = vec![vec![]];
    for _ in 0..3 {
        let mut next = vec![];
        for t in &frontier { for c in alpha.iter() { let mut u = t.clone(); u.push(*c); next.push(u); } }
        queries.extend(next.iter().cloned());
        frontier = next;
    }
    queries.push("café".chars().collect()); queries.push("cafe".chars().collect());
    for mask in 1u32..(1 << universe.len()) {
        if mask.count_ones() > 3 { continue; }
        let words: Vec<&str> = (0..universe.len()).filter(|i| mask & (1 << i) != 0).map(|i| universe[i]).collect();
        let entries: Vec<(CharString, WordMetadata)> = words.iter().map(|w| (w.chars().collect::<CharString>(), WordMetadata::default())).collect();
        let fst = FstDictionary::new(entries.clone());
        let mut mutable = MutableDictionary::new();
        mutable.extend_words(entries.clone());
        // what the dictionaries actually hold (words that differ only in case share one entry)
        let word_chars: Vec<Vec<char>> = mutable.words_iter().map(|w| w.to_vec()).collect();
        let fst_words: Vec<Vec<char>> = fst.words_iter().map(|w| w.to_vec()).collect();
        for q in &queries {
            let ql: Vec<char> = q.iter().flat_map(|c| c.to_lowercase()).collect();
            let mut bad: Option<String> = None;
            if fst.contains_word(q) != mutable.contains_word(q) || fst.contains_exact_word(q) != mutable.contains_exact_word(q)
                || fst.get_correct_capitalization_of(q).map(|w| w.to_vec()) != mutable.get_correct_capitalization_of(q).map(|w| w.to_vec())
                || fst.get_word_metadata(q).is_some() != mutable.get_word_metadata(q).is_some() {
                bad = Some("FST and mutable back-ends disagree on an exact query".to_string());
            }
            for dist in 0u8..=2 {
                for cap in [1usize, 3, 100] {
                    for (name, res) in [("fst", fst.fuzzy_match(q, dist, cap)), ("mutable", mutable.fuzzy_match(q, dist, cap))] {
                        cases += 1;
                        if !res.is_empty() { nontrivial += 1; }
                        if res.len() > cap { bad = Some(format!("{}: {} results exceed the cap {}", name, res.len(), cap)); }
                        let mut prev = 0u8;
                        for r in &res {
                            let w: Vec<char> = r.word.to_vec();
                            if !(if name == "fst" { &fst_words } else { &word_chars }).contains(&w) { bad = Some(format!("{}: result {:?} is not a dictionary word", name, w.iter().collect::<String>())); }
                            let (d1, d2) = (rac_lev(q, &w), rac_lev(&ql, &w));
                            if r.edit_distance != d1 && r.edit_distance != d2 {
                                bad = Some(format!("{}: {:?} reported at distance {} but lev(query)={} and lev(lower(query))={}", name, w.iter().collect::<String>(), r.edit_distance, d1, d2));
                            }
                            if r.edit_distance > dist { bad = Some(format!("{}: distance {} exceeds the bound {}", name, r.edit_distance, dist)); }
                            if r.edit_distance < prev { bad = Some(format!("{}: results not ordered by distance", name)); }
                            prev = r.edit_distance;
                        }
                        // for a lower-case query neither back-end may miss a dictionary word within the bound
                        if cap == 100 && *q == ql {
                            for w in (if name == "fst" { &fst_words } else { &word_chars }) {
                                if rac_lev(q, w) <= dist && !res.iter().any(|r| r.word == &w[..]) {
                                    bad = Some(format!("{}: {:?} is within {} of the lower-case query but missing", name, w.iter().collect::<String>(), dist));
                                }
                            }
                        }
                        if let Some(why) = &bad {
                            println!("RAC-CEX fuzzy_backends {{\"dictionary\": {:?}, \"query\": {:?}, \"max_distance\": {}, \"max_results\": {}, \"why\": {:?}}}", words, q.iter().collect::<String>(), dist, cap, why);
                            panic!("dictionary back-end contract violated");
                        }
                    }
                }
            }
        }
    }
    }
    println!("RAC-OK fuzzy_backends cases={} nontrivial={} bound=dictionaries<=3-of-9-ASCII-words+<=3-of-6-non-ASCII-words,queries<=3-over-4,dist<=2", cases, nontrivial);
}
