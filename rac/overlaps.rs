// Runtime contract check of remove_overlaps (attached to harper-core/src/lib.rs): for every list of
// 0..=4 lints with spans over positions 0..=4 (start <= end), the result is a sub-list of the input
// multiset, pairwise non-overlapping, every dropped lint starts inside a kept one, and a non-empty
// input leaves a non-empty output.
fn rac_lint(s: usize, e: usize, id: u8) -> Lint {
    Lint { span: Span::new(s, e), priority: id, ..Default::default() }
}

#[test]
fn rac_remove_overlaps() {
    let mut spans = vec![];
    for s in 0..=4usize {
        for e in s..=4usize {
            spans.push((s, e));
        }
    }
    let n = spans.len();
    let mut cases = 0u64;
    let mut nontrivial = 0u64;
    for len in 0..=4usize {
        let total = n.pow(len as u32);
        for code in 0..total {
            let mut c = code;
            let mut lints = vec![];
            for k in 0..len {
                let (s, e) = spans[c % n];
                c /= n;
                lints.push(rac_lint(s, e, k as u8));
            }
            let input = lints.clone();
            let r = std::panic::catch_unwind(std::panic::AssertUnwindSafe(|| remove_overlaps(&mut lints)));
            cases += 1;
            let mut bad: Option<&str> = None;
            if r.is_err() {
                bad = Some("panicked");
            } else {
                // (a) nothing invented or altered: each survivor is an input lint, used at most once (ids are unique)
                let mut seen = [false; 8];
                for l in &lints {
                    let id = l.priority as usize;
                    if id >= input.len() || seen[id] || input[id] != *l {
                        bad = Some("not a sub-list");
                    }
                    if id < 8 {
                        seen[id] = true;
                    }
                }
                // (b) pairwise non-overlapping
                for i in 0..lints.len() {
                    for j in 0..lints.len() {
                        if i != j && lints[i].span.overlaps_with(lints[j].span) {
                            bad = Some("survivors overlap");
                        }
                    }
                }
                // (c) every dropped lint starts inside (or at the start of) a kept one
                for (id, l) in input.iter().enumerate() {
                    if !lints.iter().any(|k| k.priority as usize == id) {
                        if !lints.iter().any(|k| k.span.start <= l.span.start && l.span.start < k.span.end) {
                            bad = Some("dropped lint does not start inside a kept one");
                        }
                        nontrivial += 1;
                    }
                }
                // (d)
                if !input.is_empty() && lints.is_empty() {
                    bad = Some("everything dropped");
                }
            }
            if let Some(why) = bad {
                let show = |v: &Vec<Lint>| v.iter().map(|l| format!("[{},{})#{}", l.span.start, l.span.end, l.priority)).collect::<Vec<_>>().join(" ");
                println!("RAC-CEX remove_overlaps {{\"why\": \"{}\", \"input\": \"{}\", \"output\": \"{}\"}}", why, show(&input), show(&lints));
                panic!("remove_overlaps contract violated");
            }
        }
    }
    println!("RAC-OK remove_overlaps cases={} nontrivial={} bound=lints<=4,positions<=4", cases, nontrivial);
}
