// Runtime contract check of the statistics log (attached to harper-stats/src/lib.rs).
// BOUNDED stand-in for C19 (serde_json escaping + BufRead::lines are external to Harper, so no verifier
// can decide the contract `read(write(a) ++ write(b)) == a ++ b`):
//  (a) every single record whose captured text is a concatenation of <= 3 of 16 hostile fragments
//      (raw LF, CR LF, quotes, backslashes, NUL and other control characters, U+2028/2029, U+0085,
//      astral characters, JSON look-alikes) is read back equal;
//  (b) every batch pair (A, B) drawn from a pool of 42 records (lint records of every LintKind, every
//      kind of context token, configuration updates; batches of 0..=2 records) written one after the
//      other to the same log reads back as A ++ B, in order;
//  (c) summarize() counts every lint record exactly once: total_applied == number of lint records and
//      get_count(kind) == number of lint records of that kind, for every kind.
use harper_core::linting::{LintGroupConfig, LintKind};
use harper_core::{FatStringToken, Number, NumberSuffix, Punctuation, Quote, WordMetadata};

#[test]
fn rac_stats_roundtrip() {
    let frags = ["a", "\n", "\r\n", "\"", "\\", "\u{0}", "\u{1f600}", "\u{2028}", "\u{85}", "é", "\t", "}{\"kind\":", "\\n", "\u{7f}", "\u{1b}[0m", "\u{2029}\r"];
    let kinds = [LintKind::Spelling, LintKind::Capitalization, LintKind::Style, LintKind::Formatting, LintKind::Repetition, LintKind::Enhancement,
                 LintKind::Readability, LintKind::WordChoice, LintKind::Miscellaneous, LintKind::Punctuation];
    let tok_kinds = |i: usize| -> TokenKind {
        match i % 12 {
            0 => TokenKind::Word(None),
            1 => TokenKind::Word(Some(WordMetadata::default())),
            2 => TokenKind::Space(2),
            3 => TokenKind::Newline(1),
            4 => TokenKind::Punctuation(Punctuation::Comma),
            5 => TokenKind::Punctuation(Punctuation::Quote(Quote { twin_loc: Some(3) })),
            6 => TokenKind::Number(Number { value: 21.0.into(), suffix: Some(NumberSuffix::St), radix: 10, precision: 0 }),
            7 => TokenKind::Number(Number { value: 1234567.5.into(), suffix: None, radix: 10, precision: 1 }),
            8 => TokenKind::Unlintable,
            // values whose shortest decimal form needs 17 significant digits (the mantissa of f64::MAX, as written in API docs)
            10 => TokenKind::Number(Number { value: 1.7976931348623157.into(), suffix: None, radix: 10, precision: 16 }),
            11 => TokenKind::Number(Number { value: 1.6047802727761427e-6.into(), suffix: None, radix: 10, precision: 22 }),
            _ => TokenKind::ParagraphBreak,
        }
    };
    let mut texts: Vec<String> = vec![String::new()];
    let mut frontier: Vec<String> = vec![String::new()];
    // thorough tier: captured text of <= 4 fragments
    let depth = if std::env::var("VERIF_RAC_TIER").as_deref() == Ok("thorough") { 4 } else { 3 };
    for _ in 0..depth {
        let mut next = vec![];
        for t in &frontier {
            for f in frags.iter() {
                next.push(format!("{}{}", t, f));
            }
        }
        texts.extend(next.iter().cloned());
        frontier = next;
    }
    let mk = |i: usize, text: &str| -> Record {
        Record {
            kind: RecordKind::Lint {
                kind: kinds[i % kinds.len()],
                context: vec![
                    FatStringToken { content: text.to_string(), kind: tok_kinds(i) },
                    FatStringToken { content: text.chars().rev().collect(), kind: tok_kinds(i / 12 + 3) },
                ],
            },
            when: (i as i64) * 7919 - 5,
            uuid: uuid::Uuid::from_u128((i as u128).wrapping_mul(0x9e3779b97f4a7c15f39cc0605cedc835)),
        }
    };
    let roundtrip = |batches: &[&[Record]]| -> Result<Vec<Record>, String> {
        let mut log: Vec<u8> = Vec::new();
        for b in batches {
            let s = Stats { records: b.to_vec() };
            s.write(&mut log).map_err(|e| format!("write failed: {}", e))?;
        }
        let back = Stats::read(&mut log.as_slice()).map_err(|e| format!("read failed: {} (log: {:?})", e, String::from_utf8_lossy(&log)))?;
        Ok(back.records)
    };
    let mut cases = 0u64;
    let mut nontrivial = 0u64;
    // (a)
    for (i, t) in texts.iter().enumerate() {
        let r = mk(i, t);
        cases += 1;
        if t.chars().any(|c| c.is_control() || c == '"' || c == '\\' || c as u32 > 0x7f) { nontrivial += 1; }
        let got = std::panic::catch_unwind(std::panic::AssertUnwindSafe(|| roundtrip(&[std::slice::from_ref(&r)])));
        let bad = match got {
            Err(_) => Some("panicked".to_string()),
            Ok(Err(e)) => Some(e),
            Ok(Ok(v)) => if v.len() == 1 && v[0] == r { None } else { Some(format!("{} records read back, first equal: {}", v.len(), v.first() == Some(&r))) },
        };
        if let Some(why) = bad {
            println!("RAC-CEX stats_roundtrip {{\"clause\": \"a\", \"captured_text\": {:?}, \"why\": {:?}, \"record_as_written\": {:?}}}", t, why, serde_json::to_string(&r).unwrap_or_default());
            panic!("stats log contract violated");
        }
        if i == 4242 % texts.len() { println!("RAC-SAMPLE stats_roundtrip {{\"clause\": \"a\", \"captured_text\": {:?}}}", t); }
    }
    // pool for (b) and (c)
    let mut pool: Vec<Record> = Vec::new();
    // a lint that intersects no token has an empty context (an insertion point at the very end of a text)
    for i in 0..2usize {
        pool.push(Record { kind: RecordKind::Lint { kind: kinds[i * 3], context: vec![] }, when: 77 + i as i64, uuid: uuid::Uuid::from_u128(0xfeed + i as u128) });
    }
    for i in 0..30 {
        pool.push(mk(i * 131 + 7, &texts[(i * 97 + 1) % texts.len()]));
    }
    for i in 0..10usize {
        let mut cfg = LintGroupConfig::default();
        if i % 2 == 0 { cfg.set_rule_enabled("SpellCheck", i % 4 == 0); }
        if i % 3 == 0 { cfg.set_rule_enabled(format!("Rule\n\"{}\"", i), true); }
        if i == 9 { cfg.fill_with_curated(); }
        pool.push(Record { kind: RecordKind::LintConfigUpdate(cfg), when: -(i as i64), uuid: uuid::Uuid::from_u128(i as u128) });
    }
    let mut batches: Vec<Vec<Record>> = vec![vec![]];
    for i in 0..pool.len() {
        batches.push(vec![pool[i].clone()]);
        batches.push(vec![pool[i].clone(), pool[(i * 7 + 3) % pool.len()].clone()]);
    }
    for a in &batches {
        for b in &batches {
            cases += 1;
            if !a.is_empty() && !b.is_empty() { nontrivial += 1; }
            let want: Vec<Record> = a.iter().chain(b.iter()).cloned().collect();
            let got = std::panic::catch_unwind(std::panic::AssertUnwindSafe(|| roundtrip(&[a.as_slice(), b.as_slice()])));
            let bad = match got {
                Err(_) => Some("panicked".to_string()),
                Ok(Err(e)) => Some(e),
                Ok(Ok(v)) => if v == want { None } else { Some(format!("{} records read back, {} written; same order and content: false", v.len(), want.len())) },
            };
            if let Some(why) = bad {
                println!("RAC-CEX stats_roundtrip {{\"clause\": \"b\", \"first_batch\": {:?}, \"second_batch\": {:?}, \"why\": {:?}}}", a, b, why);
                panic!("stats log append contract violated");
            }
            // (c)
            let stats = Stats { records: want.clone() };
            let sum = std::panic::catch_unwind(std::panic::AssertUnwindSafe(|| stats.summarize()));
            let n_lints = want.iter().filter(|r| matches!(r.kind, RecordKind::Lint { .. })).count() as u32;
            let bad = match sum {
                Err(_) => Some("summarize panicked".to_string()),
                Ok(s) => {
                    let mut why = None;
                    if s.total_applied != n_lints { why = Some(format!("total_applied = {} for {} lint records", s.total_applied, n_lints)); }
                    for k in kinds.iter() {
                        let n = want.iter().filter(|r| matches!(&r.kind, RecordKind::Lint { kind, .. } if kind == k)).count() as u32;
                        if s.get_count(*k) != n { why = Some(format!("get_count({:?}) = {} for {} lint records of that kind", k, s.get_count(*k), n)); }
                    }
                    why
                }
            };
            if let Some(why) = bad {
                println!("RAC-CEX stats_roundtrip {{\"clause\": \"c\", \"records\": {:?}, \"why\": {:?}}}", want, why);
                panic!("stats summary contract violated");
            }
        }
    }
    println!("RAC-SAMPLE stats_roundtrip {{\"clause\": \"b\", \"first_batch_len\": 2, \"second_batch_len\": 1, \"first_record\": {:?}}}", serde_json::to_string(&pool[3]).unwrap());
    println!("RAC-OK stats_roundtrip cases={} nontrivial={} bound=captured-text<={}-of-16-fragments;batch-pairs-from-65-batches-over-42-records", cases, nontrivial, depth);
}
