// Runtime contract check of edit_distance (attached to harper-core/src/edit_distance.rs): equals a
// reference Levenshtein distance (full matrix, u32) for all pairs of strings of length 0..=5 over {a,b,c}.
fn rac_lev(a: &[char], b: &[char]) -> u32 {
    let mut m = vec![vec![0u32; b.len() + 1]; a.len() + 1];
    for i in 0..=a.len() { m[i][0] = i as u32; }
    for j in 0..=b.len() { m[0][j] = j as u32; }
    for i in 1..=a.len() {
        for j in 1..=b.len() {
            let c = if a[i - 1] == b[j - 1] { 0 } else { 1 };
            m[i][j] = (m[i - 1][j] + 1).min(m[i][j - 1] + 1).min(m[i - 1][j - 1] + c);
        }
    }
    m[a.len()][b.len()]
}

fn rac_strings(alpha: &[char], max: usize) -> Vec<Vec<char>> {
    let mut all = vec![vec![]];
    let mut frontier: Vec<Vec<char>> = vec![vec![]];
    for _ in 0..max {
        let mut next = vec![];
        for t in &frontier {
            for c in alpha {
                let mut u = t.clone();
                u.push(*c);
                next.push(u);
            }
        }
        all.extend(next.iter().cloned());
        frontier = next;
    }
    all
}

#[test]
fn rac_edit_distance() {
    let ss = rac_strings(&['a', 'b', 'c'], 5);
    let mut cases = 0u64;
    let mut nontrivial = 0u64;
    let mut ba = Vec::new();
    let mut bb = Vec::new();
    for a in &ss {
        for b in &ss {
            let want = rac_lev(a, b);
            let r = std::panic::catch_unwind(std::panic::AssertUnwindSafe(|| (edit_distance(a, b), edit_distance_min_alloc(a, b, &mut ba, &mut bb))));
            cases += 1;
            if want > 0 { nontrivial += 1; }
            let ok = matches!(r, Ok((x, y)) if x as u32 == want && y as u32 == want);
            if !ok {
                println!("RAC-CEX edit_distance {{\"a\": {:?}, \"b\": {:?}, \"want\": {}, \"got\": {:?}}}", a.iter().collect::<String>(), b.iter().collect::<String>(), want, r.ok());
                panic!("edit_distance contract violated");
            }
        }
    }
    // long inputs up to the proved bound
    for n in [100usize, 200, 254] {
        let a: Vec<char> = std::iter::repeat('a').take(n).collect();
        let b: Vec<char> = std::iter::repeat('b').take(n).collect();
        let r = std::panic::catch_unwind(std::panic::AssertUnwindSafe(|| edit_distance(&a, &b)));
        cases += 1;
        if !matches!(r, Ok(d) if d as usize == n) {
            println!("RAC-CEX edit_distance {{\"a\": \"a*{}\", \"b\": \"b*{}\", \"want\": {}, \"got\": {:?}}}", n, n, n, r.ok());
            panic!("edit_distance contract violated");
        }
    }
    println!("RAC-OK edit_distance cases={} nontrivial={} bound=len<=5,alphabet=3", cases, nontrivial);
}

// Beyond the proved bound (known finding D5): at 255 chars the u8 rows overflow (panic in debug builds,
// wrap-around in release builds); above 255 the `as u8` row width truncates and the function indexes out
// of bounds. The Verus contract therefore requires len <= 254; this check documents what happens beyond.
#[test]
fn rac_edit_distance_long() {
    let mut cases = 0u64;
    for n in [255usize, 256, 300] {
        let a: Vec<char> = std::iter::repeat('a').take(n).collect();
        let b: Vec<char> = std::iter::repeat('b').take(n).collect();
        let r = std::panic::catch_unwind(std::panic::AssertUnwindSafe(|| edit_distance(&a, &b)));
        cases += 1;
        let want = n; // all substitutions
        if !matches!(r, Ok(d) if d as usize == want) {
            println!("RAC-CEX edit_distance_long {{\"a\": \"a*{}\", \"b\": \"b*{}\", \"want\": {}, \"got\": {:?}, \"panicked\": {}}}", n, n, want, r.as_ref().ok(), r.is_err());
            panic!("edit_distance beyond 254 chars");
        }
    }
    println!("RAC-OK edit_distance_long cases={} nontrivial={} bound=lengths-255-256-300", cases, cases);
}
