// Runtime contract check of the lexer contracts (attached to harper-core/src/lexing/mod.rs): for every
// text of length 0..=4 over a 16-symbol alphabet chosen to trigger every sub-lexer, each sub-lexer
// satisfies found_ok (a hit consumes 1..=len chars), lex_token never returns None on non-empty
// input, and PlainEnglish::parse tiles the text.
const RAC_ALPHA: [char; 16] = ['a', 's', '1', '0', 'x', ' ', '\t', '\n', '.', '[', ']', '-', '\'', '\u{1F600}', '@', '"'];

fn rac_texts(max: usize) -> Vec<Vec<char>> {
    let mut all = vec![vec![]];
    let mut frontier: Vec<Vec<char>> = vec![vec![]];
    for _ in 0..max {
        let mut next = vec![];
        for t in &frontier {
            for c in RAC_ALPHA.iter() {
                let mut u = t.clone();
                u.push(*c);
                next.push(u);
            }
        }
        all.extend(next.iter().cloned());
        frontier = next;
    }
    all
}

fn rac_found_ok(len: usize, r: &Option<FoundToken>) -> bool {
    match r {
        Some(f) => 1 <= f.next_index && f.next_index <= len,
        None => true,
    }
}

#[test]
fn rac_lexers() {
    let lexers: [(&str, fn(&[char]) -> Option<FoundToken>); 13] = [
        ("lex_regexish", lex_regexish), ("lex_punctuation", lex_punctuation), ("lex_tabs", lex_tabs), ("lex_spaces", lex_spaces),
        ("lex_newlines", lex_newlines), ("lex_plural_digit", lex_plural_digit), ("lex_hex_number", lex_hex_number),
        ("lex_long_decade", lex_long_decade), ("lex_number", lex_number), ("lex_url", lex_url), ("lex_email_address", lex_email_address),
        ("lex_hostname_token", lex_hostname_token), ("lex_word", lex_word),
    ];
    let mut cases = 0u64;
    let mut nontrivial = 0u64;
    for t in rac_texts(4) {
        for (name, f) in lexers.iter() {
            let r = std::panic::catch_unwind(|| f(&t));
            cases += 1;
            let ok = matches!(&r, Ok(x) if rac_found_ok(t.len(), x));
            if matches!(&r, Ok(Some(_))) { nontrivial += 1; }
            if !ok {
                println!("RAC-CEX lexers {{\"lexer\": \"{}\", \"text\": {:?}, \"result\": {:?}}}", name, t.iter().collect::<String>(), r.ok());
                panic!("sub-lexer contract violated");
            }
        }
        if !t.is_empty() {
            let r = std::panic::catch_unwind(|| lex_token(&t));
            cases += 1;
            let ok = matches!(&r, Ok(Some(f)) if 1 <= f.next_index && f.next_index <= t.len());
            if !ok {
                println!("RAC-CEX lexers {{\"lexer\": \"lex_token\", \"text\": {:?}, \"result\": {:?}}}", t.iter().collect::<String>(), r.ok());
                panic!("lex_token contract violated");
            }
        }
    }
    println!("RAC-OK lexers cases={} nontrivial={} bound=len<=4,alphabet=16", cases, nontrivial);
}

#[test]
fn rac_plain_english_tiles() {
    use crate::parsers::{Parser, PlainEnglish};
    let mut cases = 0u64;
    let mut nontrivial = 0u64;
    for t in rac_texts(4) {
        let r = std::panic::catch_unwind(|| PlainEnglish.parse(&t));
        cases += 1;
        let mut ok = r.is_ok();
        if let Ok(toks) = &r {
            let mut cur = 0;
            for tok in toks {
                if tok.span.start != cur || tok.span.end <= tok.span.start { ok = false; }
                cur = tok.span.end;
            }
            if cur != t.len() { ok = false; }
            if toks.len() > 1 { nontrivial += 1; }
        }
        if !ok {
            println!("RAC-CEX plain_english_tiles {{\"text\": {:?}, \"tokens\": {:?}}}", t.iter().collect::<String>(), r.ok().map(|v| v.iter().map(|t| (t.span.start, t.span.end)).collect::<Vec<_>>()));
            panic!("tiling violated");
        }
    }
    println!("RAC-OK plain_english_tiles cases={} nontrivial={} bound=len<=4,alphabet=16", cases, nontrivial);
}

// URL scanner: fragments that exercise scheme / login / host / port / path / escapes. Runs on a
// worker thread; if the worker does not finish within the budget the input it is stuck on is
// reported (non-termination).
#[test]
fn rac_url_scanner() {
    use std::sync::{Arc, Mutex, mpsc};
    let frags = ["http://", "ftp://", "a", "b.c", "?", ";", "=", "&", "@", "/", ":", "%41", "%4", "8", ".", "-", " "];
    let current: Arc<Mutex<String>> = Arc::new(Mutex::new(String::new()));
    let cur2 = current.clone();
    let (tx, rx) = mpsc::channel::<Result<(u64, u64), String>>();
    std::thread::spawn(move || {
        let mut texts: Vec<String> = vec![String::new()];
        let mut frontier: Vec<String> = vec![String::new()];
        for _ in 0..5 {
            let mut next = vec![];
            for t in &frontier {
                for f in frags.iter() {
                    next.push(format!("{}{}", t, f));
                }
            }
            texts.extend(next.iter().cloned());
            frontier = next;
        }
        let mut cases = 0u64;
        let mut nontrivial = 0u64;
        for t in &texts {
            // only texts that start like a URL are interesting for lex_url; the others are cheap
            let cs: Vec<char> = t.chars().collect();
            *cur2.lock().unwrap() = t.clone();
            let r = std::panic::catch_unwind(|| lex_url(&cs));
            cases += 1;
            match r {
                Ok(x) => {
                    if x.is_some() { nontrivial += 1; }
                    if !rac_found_ok(cs.len(), &x) {
                        let _ = tx.send(Err(format!("{{\"lexer\": \"lex_url\", \"text\": {:?}, \"result\": {:?}}}", t, x)));
                        return;
                    }
                }
                Err(_) => {
                    let _ = tx.send(Err(format!("{{\"lexer\": \"lex_url\", \"text\": {:?}, \"result\": \"panicked\"}}", t)));
                    return;
                }
            }
        }
        let _ = tx.send(Ok((cases, nontrivial)));
    });
    match rx.recv_timeout(std::time::Duration::from_secs(120)) {
        Ok(Ok((cases, nontrivial))) => println!("RAC-OK url_scanner cases={} nontrivial={} bound=<=5-of-17-fragments", cases, nontrivial),
        Ok(Err(cex)) => {
            println!("RAC-CEX url_scanner {}", cex);
            panic!("lex_url contract violated");
        }
        Err(_) => {
            println!("RAC-CEX url_scanner {{\"lexer\": \"lex_url\", \"text\": {:?}, \"result\": \"did not terminate within 120 s\"}}", current.lock().unwrap().clone());
            panic!("lex_url hangs");
        }
    }
}

// The words a lexer treats specially are written in its source: string / char-array literals harvested from
// harper-core/src/lexing/*.rs OF THE TREE UNDER CHECK (vx/racrun.py: harvest_lex_literals) are used as fragments.
// Each literal is put in front of / behind a few fixed heads and tails, and every sub-lexer, lex_token and the tiling of
// PlainEnglish::parse must meet their contracts on the result. BOUNDED: |literals| x 4 heads x 9 tails.
include!("/verif/.cache/rac-gen/lex_literals.rs");
#[test]
fn rac_lexer_literals() {
    use crate::parsers::{Parser, PlainEnglish};
    let lexers: [(&str, fn(&[char]) -> Option<FoundToken>); 13] = [
        ("lex_regexish", lex_regexish), ("lex_punctuation", lex_punctuation), ("lex_tabs", lex_tabs), ("lex_spaces", lex_spaces),
        ("lex_newlines", lex_newlines), ("lex_plural_digit", lex_plural_digit), ("lex_hex_number", lex_hex_number),
        ("lex_long_decade", lex_long_decade), ("lex_number", lex_number), ("lex_url", lex_url), ("lex_email_address", lex_email_address),
        ("lex_hostname_token", lex_hostname_token), ("lex_word", lex_word),
    ];
    let heads = ["", " ", "a", "1"];
    let tails = ["", "a", " b", "a@b.c", "a@b.co d", "//a.b/c", "1", ".", "\n"];
    let mut cases = 0u64;
    let mut nontrivial = 0u64;
    // C01 quantifies over every prefix of a text (a document being typed): every proper prefix of every literal, at the very end
    // of the text, is a case as well
    let mut texts: Vec<String> = vec![];
    for lit in RAC_LEX_LITERALS.iter() {
        for h in heads.iter() {
            for tl in tails.iter() { texts.push(format!("{}{}{}", h, lit, tl)); }
        }
        let cs: Vec<char> = lit.chars().collect();
        for k in 1..cs.len() {
            let pre: String = cs[..k].iter().collect();
            texts.push(pre.clone());
            texts.push(format!("a {}", pre));
        }
    }
    {
        {
            for text in texts.iter() {
                let text = text.clone();
                let t: Vec<char> = text.chars().collect();
                for (name, f) in lexers.iter() {
                    let r = std::panic::catch_unwind(|| f(&t));
                    cases += 1;
                    let ok = matches!(&r, Ok(x) if rac_found_ok(t.len(), x));
                    if matches!(&r, Ok(Some(_))) { nontrivial += 1; }
                    if !ok {
                        println!("RAC-CEX lexer_literals {{\"lexer\": \"{}\", \"text\": {:?}, \"result\": {:?}}}", name, text, r.ok());
                        panic!("sub-lexer contract violated");
                    }
                }
                let r = std::panic::catch_unwind(|| PlainEnglish.parse(&t));
                cases += 1;
                let mut ok = r.is_ok();
                if let Ok(toks) = &r {
                    let mut cur = 0;
                    for tok in toks {
                        if tok.span.start != cur || tok.span.end <= tok.span.start { ok = false; }
                        cur = tok.span.end;
                    }
                    if cur != t.len() { ok = false; }
                }
                if !ok {
                    println!("RAC-CEX lexer_literals {{\"lexer\": \"PlainEnglish::parse\", \"text\": {:?}, \"tokens\": {:?}}}", text, r.ok().map(|v| v.iter().map(|t| (t.span.start, t.span.end)).collect::<Vec<_>>()));
                    panic!("tiling violated");
                }
            }
        }
    }
    println!("RAC-OK lexer_literals cases={} nontrivial={} bound=literals-of-lexing/*.rs({})x4-heads-x9-tails+every-prefix", cases, nontrivial, RAC_LEX_LITERALS.len());
}
