// Runtime contract check of Mask::push_allowed (attached to harper-core/src/mask/mod.rs): for every sequence of up to
// 5 spans pushed in order (start >= previous end, over positions 0..=6, zero-width allowed), the allowed list stays
// sorted and disjoint and allows exactly the characters of the pushed spans.
#[test]
fn rac_mask_push() {
    fn rec(seq: &mut Vec<(usize, usize)>, from: usize, out: &mut Vec<Vec<(usize, usize)>>) {
        out.push(seq.clone());
        if seq.len() == 5 { return; }
        for s in from..=6 { for e in s..=6 { seq.push((s, e)); rec(seq, e, out); seq.pop(); } }
    }
    let mut all = vec![];
    rec(&mut vec![], 0, &mut all);
    let mut cases = 0u64;
    let mut nontrivial = 0u64;
    for seq in &all {
        let mut mask = Mask::new_blank();
        let r = std::panic::catch_unwind(std::panic::AssertUnwindSafe(|| { for (s, e) in seq { mask.push_allowed(Span::new(*s, *e)); } }));
        cases += 1;
        let mut bad: Option<String> = None;
        if r.is_err() { bad = Some("panicked".to_string()); } else {
            for w in mask.allowed.windows(2) { if w[0].end > w[1].start { bad = Some("allowed spans overlap or are out of order".to_string()); } }
            for a in &mask.allowed { if a.start > a.end { bad = Some("malformed span".to_string()); } }
            for c in 0..7usize {
                let want = seq.iter().any(|(s, e)| *s <= c && c < *e);
                let got = mask.allowed.iter().any(|a| a.start <= c && c < a.end);
                if want != got { bad = Some(format!("character {} allowed={} but pushed={}", c, got, want)); }
            }
            if mask.allowed.len() > 1 { nontrivial += 1; }
        }
        if let Some(why) = bad {
            println!("RAC-CEX mask_push {{\"pushed\": {:?}, \"why\": {:?}}}", seq, why);
            panic!("Mask::push_allowed contract violated");
        }
    }
    println!("RAC-OK mask_push cases={} nontrivial={} bound=<=5-ordered-spans-over-7-positions", cases, nontrivial);
}
