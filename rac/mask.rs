// Runtime contract check of Mask::push_allowed (attached to harper-core/src/mask/mod.rs): for every sequence of up to
// 5 spans pushed in order (start >= previous end, over positions 0..=6, zero-width allowed), the allowed list stays
// sorted and disjoint and allows exactly the characters of the pushed spans.
#[test]
fn rac_mask_push() {
    fn rec(seq: &mut Vec<(usize, usize)>, from: usize, out: &mut Vec<Vec<(usize, usize)>>) {
        out.push(seq.clone());
        if seq.len() == 5 { return; }
        for s in from..=6 { for e in s..=6 { seq.push((s, e)); rec(seq, e, out); seq.pop(); } }
    }
    let mut all = vec![];
    rec(&mut vec![], 0, &mut all);
    let mut cases = 0u64;
    let mut nontrivial = 0u64;
    for seq in &all {
        let mut mask = Mask::new_blank();
        let r = std::panic::catch_unwind(std::panic::AssertUnwindSafe(|| { for (s, e) in seq { mask.push_allowed(Span::new(*s, *e)); } }));
        cases += 1;
        let mut bad: Option<String> = None;
        if r.is_err() { bad = Some("panicked".to_string()); } else {
            for w in mask.allowed.windows(2) { if w[0].end > w[1].start { bad = Some("allowed spans overlap or are out of order".to_string()); } }
            for a in &mask.allowed { if a.start > a.end { bad = Some("malformed span".to_string()); } }
            for c in 0..7usize {
                let want = seq.iter().any(|(s, e)| *s <= c && c < *e);
                let got = mask.allowed.iter().any(|a| a.start <= c && c < a.end);
                if want != got { bad = Some(format!("character {} allowed={} but pushed={}", c, got, want)); }
            }
            if mask.allowed.len() > 1 { nontrivial += 1; }
        }
        if let Some(why) = bad {
            println!("RAC-CEX mask_push {{\"pushed\": {:?}, \"why\": {:?}}}", seq, why);
            panic!("Mask::push_allowed contract violated");
        }
    }
    println!("RAC-OK mask_push cases={} nontrivial={} bound=<=5-ordered-spans-over-7-positions", cases, nontrivial);
}

// Runtime contract check of Mask::merge_whitespace_sep: for every source of 7 characters over {'a', ' ', '\n', '\t'}
// restricted to 40 patterns and every ordered list of up to 4 disjoint spans over it: the call returns (no panic,
// no endless recursion), the allowed list stays well formed, sorted, disjoint and inside the text, nothing that was
// allowed is lost, and every character gained is white space lying between two formerly allowed spans.
#[test]
fn rac_mask_merge() {
    fn rec(seq: &mut Vec<(usize, usize)>, from: usize, out: &mut Vec<Vec<(usize, usize)>>) {
        out.push(seq.clone());
        if seq.len() == 4 { return; }
        for s in from..=7 { for e in s..=7 { seq.push((s, e)); rec(seq, e, out); seq.pop(); } }
    }
    let mut all = vec![];
    rec(&mut vec![], 0, &mut all);
    let alphabet = ['a', ' ', '\n', '\t'];
    let mut sources: Vec<Vec<char>> = vec![];
    let mut x: u64 = 0x9e3779b97f4a7c15;
    for _ in 0..40 {
        let mut v = vec![];
        for _ in 0..7 { x ^= x << 13; x ^= x >> 7; x ^= x << 17; v.push(alphabet[(x % 4) as usize]); }
        sources.push(v);
    }
    sources.push("a a a a".chars().collect());
    sources.push("a  \n  a".chars().collect());
    let (tx, rx) = std::sync::mpsc::channel::<Result<(u64, u64), String>>();
    std::thread::spawn(move || {
        let mut cases = 0u64;
        let mut nontrivial = 0u64;
        for src in &sources {
            for seq in &all {
                let mut mask = Mask::new_blank();
                for (s, e) in seq { mask.push_allowed(Span::new(*s, *e)); }
                let before: Vec<Span> = mask.allowed.clone();
                let r = std::panic::catch_unwind(std::panic::AssertUnwindSafe(|| { mask.merge_whitespace_sep(src); }));
                cases += 1;
                let mut bad: Option<String> = None;
                if r.is_err() { bad = Some("panicked".to_string()); } else {
                    for w in mask.allowed.windows(2) { if w[0].end > w[1].start { bad = Some("allowed spans overlap or are out of order".to_string()); } }
                    for a in &mask.allowed { if a.start > a.end || a.end > src.len() { bad = Some("malformed span or span outside the text".to_string()); } }
                    for c in 0..src.len() {
                        let was = before.iter().any(|a| a.start <= c && c < a.end);
                        let is = mask.allowed.iter().any(|a| a.start <= c && c < a.end);
                        if was && !is { bad = Some(format!("character {} was allowed and is not any more", c)); }
                        if !was && is {
                            let between = before.iter().any(|a| a.end <= c) && before.iter().any(|a| a.start > c);
                            if !src[c].is_whitespace() || !between { bad = Some(format!("character {} ({:?}) became allowed although it is not white space between two allowed spans", c, src[c])); }
                        }
                    }
                    if mask.allowed.len() < before.len() { nontrivial += 1; }
                }
                if let Some(why) = bad {
                    let _ = tx.send(Err(format!("{{\"source\": {:?}, \"allowed\": {:?}, \"result\": {:?}, \"why\": {:?}}}", src.iter().collect::<String>(), seq, mask.allowed.iter().map(|a| (a.start, a.end)).collect::<Vec<_>>(), why)));
                    return;
                }
            }
        }
        let _ = tx.send(Ok((cases, nontrivial)));
    });
    match rx.recv_timeout(std::time::Duration::from_secs(200)) {
        Ok(Ok((cases, nontrivial))) => println!("RAC-OK mask_merge cases={} nontrivial={} bound=42-sources-of-7-chars-x-<=4-ordered-spans", cases, nontrivial),
        Ok(Err(cex)) => { println!("RAC-CEX mask_merge {}", cex); panic!("Mask::merge_whitespace_sep contract violated"); }
        Err(_) => { println!("RAC-CEX mask_merge {{\"why\": \"did not terminate within 200 s\"}}"); panic!("Mask::merge_whitespace_sep hangs"); }
    }
}
