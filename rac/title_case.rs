// Runtime contract check of title-casing (attached to harper-core/src/title_case.rs).
// BOUNDED stand-in for C18 (make_title_case is peekable()/enumerate()/iter_mut() code over a parsed Document
// and dictionary data: outside Verus; a symbolic Document is out of CBMC's reach). For every text made of
// <= 3 of 42 fragments (plus every 4-fragment text over a 12-fragment subset), joined by single blanks,
// through the plain-English front-end and the curated dictionary:
//  (a) the call returns (no panic) a string with the same number of characters;
//  (b) every character is unchanged, or the same letter in the other case, or an apostrophe variant
//      standing where an apostrophe variant stood;
//  (c) the first word-like token starts with an upper-case letter if it starts with an ASCII letter;
//  (d) converting the result again changes nothing;
//  (e) the slice-level contract the property rests on (make_title_case is also called on sub-slices of a token list,
//      by the IsNotTitleCase pattern, and on Markdown tokens that do not start at offset 0): for every suffix of the
//      token list that starts at a word, and for the text behind a Markdown heading / list / quote prefix, the result
//      has the length of the characters the slice spans and differs from them only in letter case.
use crate::parsers::PlainEnglish;
use crate::FstDictionary;

fn rac_same_letter(a: char, b: char) -> bool {
    let apo = ['\'', '’', '‘', 'ʼ', '＇'];
    a == b || a.to_lowercase().eq(b.to_lowercase()) || a.to_uppercase().eq(b.to_uppercase()) || (apo.contains(&a) && apo.contains(&b))
}

// "normalising curly apostrophes of known proper nouns": a changed apostrophe must sit inside a word token that the
// dictionary knows as a proper noun
fn rac_in_proper_noun(text: &str, i: usize, dict: &FstDictionary) -> bool {
    let doc = Document::new_from_vec(Lrc::new(text.chars().collect()), &PlainEnglish, dict);
    doc.get_tokens().iter().any(|t| t.span.start <= i && i < t.span.end && matches!(&t.kind, TokenKind::Word(Some(m)) if m.is_proper_noun()))
}

#[test]
fn rac_title_case() {
    let frags = ["the", "a", "about", "videopress", "united", "states", "new", "york", "and", "of", "in", "THE", "iPhone", "o’neill", "mother-in-law", "42", "2nd",
                 "é", "über", "x.", ",", "\"quoted\"", "(", "i.e.", "e-mail", "at", "Is", "wordpress.com", "mcdonald’s", "IBM", "nasa", "ÉCOLE", "don't", "with",
                 // initials whose upper-case form is more than one character
                 "ßtrasse", "ﬁsh", "ŉ", "ebay", "macos",
                 // curly quotes and primes that are not apostrophes of proper nouns must stay as they are
                 "‘best’", "5’", "10’’"];
    let sub = [0usize, 1, 2, 3, 8, 11, 13, 14, 20, 23, 28, 33];
    let dict = FstDictionary::curated();
    let mut texts: Vec<String> = vec![String::new()];
    let mut frontier: Vec<String> = vec![String::new()];
    // thorough tier: every text of <= 4 of the 34 fragments
    let depth = if std::env::var("VERIF_RAC_TIER").as_deref() == Ok("thorough") { 4 } else { 3 };
    for _ in 0..depth {
        let mut next = vec![];
        for t in &frontier {
            for f in frags.iter() {
                next.push(if t.is_empty() { f.to_string() } else { format!("{} {}", t, f) });
            }
        }
        texts.extend(next.iter().cloned());
        frontier = next;
    }
    for a in sub { for b in sub { for c in sub { for d in sub {
        texts.push(format!("{} {} {} {}", frags[a], frags[b], frags[c], frags[d]));
    } } } }
    // a few shapes outside the fragment grid: leading blanks, tabs, trailing punctuation, hyphen at the edge
    for t in ["\ta", "  the end", "the end.", "-the", "the-", "a", "A", "of", "a a", "...", "\u{3000}the", "the\u{a0}of"] { texts.push(t.to_string()); }
    let mut cases = 0u64;
    let mut nontrivial = 0u64;
    for t in &texts {
        cases += 1;
        let r = std::panic::catch_unwind(std::panic::AssertUnwindSafe(|| {
            let once = make_title_case_str(t, &PlainEnglish, &dict);
            let twice = make_title_case_str(&once, &PlainEnglish, &dict);
            (once, twice)
        }));
        let mut bad: Option<String> = None;
        match &r {
            Err(_) => bad = Some("panicked".to_string()),
            Ok((once, twice)) => {
                let src: Vec<char> = t.chars().collect();
                let out: Vec<char> = once.chars().collect();
                if out.len() != src.len() {
                    bad = Some(format!("result {:?} has {} characters, the input {}", once, out.len(), src.len()));
                } else if let Some(i) = (0..src.len()).find(|&i| !rac_same_letter(src[i], out[i]) || (src[i] != out[i] && !src[i].is_alphabetic() && !rac_in_proper_noun(t, i, &dict))) {
                    bad = Some(format!("result {:?} differs from the input at character {} in more than letter case ({:?} -> {:?})", once, i, src[i], out[i]));
                } else if once != twice {
                    bad = Some(format!("not idempotent: once {:?}, twice {:?}", once, twice));
                } else {
                    let doc = Document::new_from_vec(Lrc::new(src.clone()), &PlainEnglish, &dict);
                    if let Some(first) = doc.get_tokens().iter_word_likes().next() {
                        let c0 = src[first.span.start];
                        if c0.is_ascii_alphabetic() && !out[first.span.start].is_uppercase() {
                            bad = Some(format!("result {:?}: the first word-like token starts with {:?}", once, out[first.span.start]));
                        }
                    }
                    if once != t { nontrivial += 1; }
                    // (e) sub-slices and Markdown prefixes (texts of <= 3 fragments only, to bound the cost)
                    if bad.is_none() && t.matches(' ').count() <= 2 {
                        let toks = doc.get_tokens();
                        for i in 1..toks.len() {
                            if !toks[i].kind.is_word() { continue; }
                            let sub = &toks[i..];
                            let got = std::panic::catch_unwind(std::panic::AssertUnwindSafe(|| make_title_case(sub, &src, &dict)));
                            let base = toks[i].span.start;
                            let want_len = toks[toks.len() - 1].span.end - base;
                            match got {
                                Err(_) => { bad = Some(format!("make_title_case panicked on the token slice starting at character {}", base)); }
                                Ok(g) => {
                                    if g.len() != want_len {
                                        bad = Some(format!("token slice starting at character {}: result has {} characters, the slice spans {}", base, g.len(), want_len));
                                    } else if let Some(j) = (0..g.len()).find(|&j| !rac_same_letter(src[base + j], g[j])) {
                                        bad = Some(format!("token slice starting at character {}: result {:?} differs from the text in more than letter case at offset {}", base, g.iter().collect::<String>(), j));
                                    }
                                }
                            }
                            if bad.is_some() { break; }
                        }
                        for prefix in ["# ", "- ", "> "] {
                            if bad.is_some() { break; }
                            let md = format!("{}{}", prefix, t);
                            let mdsrc: Vec<char> = md.chars().collect();
                            let parser = crate::parsers::Markdown::default();
                            let got = std::panic::catch_unwind(std::panic::AssertUnwindSafe(|| {
                                let d = Document::new_from_vec(Lrc::new(mdsrc.clone()), &parser, &dict);
                                let span = d.get_tokens().span();
                                (make_title_case(d.get_tokens(), &mdsrc, &dict), span)
                            }));
                            match got {
                                Err(_) => { bad = Some(format!("make_title_case panicked on the Markdown text {:?}", md)); }
                                Ok((g, Some(span))) => {
                                    if g.len() != span.len() {
                                        bad = Some(format!("Markdown text {:?}: result has {} characters, the tokens span {}", md, g.len(), span.len()));
                                    } else if let Some(j) = (0..g.len()).find(|&j| !rac_same_letter(mdsrc[span.start + j], g[j])) {
                                        bad = Some(format!("Markdown text {:?}: result {:?} differs from the text in more than letter case at offset {}", md, g.iter().collect::<String>(), j));
                                    }
                                }
                                Ok((_, None)) => {}
                            }
                        }
                    }
                }
            }
        }
        if let Some(why) = bad {
            println!("RAC-CEX title_case {{\"text\": {:?}, \"why\": {:?}}}", t, why);
            panic!("title-case contract violated");
        }
        if cases == 4321 { println!("RAC-SAMPLE title_case {{\"text\": {:?}, \"title_case\": {:?}}}", t, r.as_ref().unwrap().0); }
    }
    println!("RAC-OK title_case cases={} nontrivial={} bound=<={}-of-42-fragments+4-of-12-fragments,plain-English,curated-dictionary", cases, nontrivial, depth);
}
