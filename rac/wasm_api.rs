// Runtime contract check of the JavaScript-facing linter object (attached to harper-wasm/src/lib.rs; the crate
// is also an rlib, so its pure-Rust API runs natively).
// BOUNDED stand-in for C16 (and for the harper-wasm call sites of C11 / C18): the representation invariant and
// the operation contracts of `Linter`, executed on scripted call sequences over 35 texts x {Plain, Markdown}:
//  (a) lint: every span inside the text, spans pairwise non-overlapping, problem text == the characters at the span;
//      Lint / Span / Suggestion survive to_json -> from_json -> to_json unchanged;
//  (b) apply_suggestion == the mathematical splice at the lint's span (everything before and after untouched);
//  (c) ignore_lint(l) then lint: l is gone, the rest is an in-order sub-list and everything removed is a twin of l;
//      export + clear restores the original lints, import restores the reduced ones;
//  (d) import_words([w]) for a flagged spelling w: no spelling lint on w afterwards; a fresh Linter fed with
//      export_words() reports the same lints; an earlier ignore survives the dictionary rebuild;
//  (e) set_lint_config_from_json: switched-off rules contribute nothing, linting twice gives the same lints and
//      leaves get_lint_config_as_json unchanged (the temporary curated overlay is undone);
//  (f) to_title_case keeps the length and changes only letter case, also for texts ending in LF / CR LF;
//  (g) import_stats_file appends the imported records after the linter's own, in order.

fn rac_sig(l: &Lint) -> String { l.to_json() }

fn rac_check_lints(text: &str, lints: &[Lint]) -> Option<String> {
    let chars: Vec<char> = text.chars().collect();
    let mut prev_end = 0usize;
    let mut sorted: Vec<&Lint> = lints.iter().collect();
    sorted.sort_by_key(|l| (l.span().start, l.span().end));
    for l in sorted {
        let sp = l.span();
        if sp.start > sp.end || sp.end > chars.len() { return Some(format!("span {}..{} outside the text of {} characters", sp.start, sp.end, chars.len())); }
        if sp.start < prev_end { return Some(format!("lint at {}..{} overlaps the previous one ending at {}", sp.start, sp.end, prev_end)); }
        prev_end = sp.end.max(prev_end);
        let want: String = chars[sp.start..sp.end].iter().collect();
        if l.get_problem_text() != want { return Some(format!("problem text {:?} is not the text at {}..{} ({:?})", l.get_problem_text(), sp.start, sp.end, want)); }
        let j = l.to_json();
        match Lint::from_json(j.clone()) { Ok(b) if b.to_json() == j => {}, _ => return Some(format!("lint does not survive its JSON round trip: {}", j)) }
        let sj = sp.to_json();
        match Span::from_json(sj.clone()) { Ok(b) if b.to_json() == sj => {}, _ => return Some(format!("span does not survive its JSON round trip: {}", sj)) }
        for s in l.suggestions() {
            let j = s.to_json();
            match Suggestion::from_json(j.clone()) { Ok(b) if b.to_json() == j => {}, _ => return Some(format!("suggestion does not survive its JSON round trip: {}", j)) }
        }
    }
    None
}

fn rac_sigs(lints: &[Lint]) -> Vec<String> { lints.iter().map(rac_sig).collect() }

#[test]
fn rac_wasm_api() {
    let texts = [
        "There is an an apple on teh table.", "I paid 25$ and came 2st, then then I left.", "this sentence has  two spaces ,a bad comma.",
        "The the quick brown fox.\n\nA second paragraph with a mispeling.", "He said \"problm\" again and and again.", "# A heading with teh typo\n\nBody text is is here.",
        "- item one has a an error\n- item two is fine", "Visit wordpress.com for more.", "We we need to to go.", "An unclosed \"quote here.",
        "é😀 naïve teh", "", " ", "Nothing wrong here.", "It is here. a egg fell down.", "It was fine. i think so.", "Ths is bad. Ths is bad.", "teh teh teh",
        "Their are many issue's with this sentance, alot of them.", "I would of gone.", "The 1th and the 22th.", "`code teh` and teh", "[teh link](http://teh.example) teh",
        "Mr. Smith went to to Washington. ", "\tIndented teh line", "a", "A.", "to be or or not", "I has a apple.", "She dont know.",
        // one sentence of more than 40 words with two typos inside (a long lint containing two short ones)
        "This sentence goes on and on and on and on and on and on and on and on and on and on and on and on and on and on and on and on and on and on and has a mispeling here and anothr one there.",
        "Intro words here. I should of gone there and you should of stayed.",
        // candidates that overlap before overlap removal (ignoring the winner must not resurrect the loser)
        "It's a a mistake , really", "We use the microsoft windows system here.",
        "This sentence goes on and on and on and on and on and on and on and on and on and on and on and on and on and on and on and on and on and on and on and then says teh teh twice before it ends."];
    let mut linter = Linter::new(Dialect::American);
    let mut cases = 0u64;
    let mut nontrivial = 0u64;
    let mut sampled = false;
    let fail = |clause: &str, text: &str, why: String| -> ! {
        println!("RAC-CEX wasm_api {{\"clause\": {:?}, \"text\": {:?}, \"why\": {:?}}}", clause, text, why);
        panic!("linter object contract violated");
    };
    for lang in [Language::Plain, Language::Markdown] {
        for t in texts.iter() {
            cases += 1;
            linter.clear_ignored_lints();
            let chars: Vec<char> = t.chars().collect();
            let r = std::panic::catch_unwind(std::panic::AssertUnwindSafe(|| linter.lint(t.to_string(), lang)));
            let Ok(lints) = r else { fail("a", t, "lint panicked".to_string()) };
            if let Some(why) = rac_check_lints(t, &lints) { fail("a", t, why); }
            if lints.is_empty() { continue; }
            nontrivial += 1;
            if !sampled { sampled = true; println!("RAC-SAMPLE wasm_api {{\"text\": {:?}, \"language\": \"{:?}\", \"lints\": {}}}", t, lang, lints.len()); }
            // (b)
            for l in &lints {
                let sp = l.span();
                for s in l.suggestions() {
                    let before: String = chars[..sp.start].iter().collect();
                    let flagged: String = chars[sp.start..sp.end].iter().collect();
                    let after: String = chars[sp.end..].iter().collect();
                    let want = match s.kind() {
                        SuggestionKind::Replace => format!("{}{}{}", before, s.get_replacement_text(), after),
                        SuggestionKind::Remove => format!("{}{}", before, after),
                        SuggestionKind::InsertAfter => format!("{}{}{}{}", before, flagged, s.get_replacement_text(), after),
                    };
                    let got = std::panic::catch_unwind(std::panic::AssertUnwindSafe(|| linter.apply_suggestion(t.to_string(), l, &s)));
                    match got {
                        Ok(Ok(g)) if g == want => {}
                        Ok(Ok(g)) => fail("b", t, format!("apply_suggestion at {}..{} gave {:?}, the splice is {:?}", sp.start, sp.end, g, want)),
                        _ => fail("b", t, format!("apply_suggestion at {}..{} failed or panicked", sp.start, sp.end)),
                    }
                }
            }
            // (c)
            let all = rac_sigs(&lints);
            for k in 0..lints.len().min(3) {
                linter.clear_ignored_lints();
                let victim = Lint::from_json(lints[k].to_json()).unwrap();
                linter.ignore_lint(t.to_string(), victim);
                let later_lints = linter.lint(t.to_string(), lang);
                if let Some(why) = rac_check_lints(t, &later_lints) { fail("c", t, format!("after ignoring lint #{}: {}", k, why)); }
                let later = rac_sigs(&later_lints);
                if later.contains(&all[k]) { fail("c", t, format!("lint #{} is still reported after ignore_lint", k)); }
                let mut it = later.iter().peekable();
                for (i, s) in all.iter().enumerate() {
                    if it.peek() == Some(&s) { it.next(); continue; }
                    let twin = lints[i].message() == lints[k].message() && lints[i].lint_kind() == lints[k].lint_kind() && lints[i].get_problem_text() == lints[k].get_problem_text();
                    if !twin { fail("c", t, format!("ignoring lint #{} also removed (or reordered) the different lint #{}", k, i)); }
                }
                if it.next().is_some() { fail("c", t, "lints appeared that were not reported before ignore_lint".to_string()); }
                let exported = linter.export_ignored_lints();
                linter.clear_ignored_lints();
                if rac_sigs(&linter.lint(t.to_string(), lang)) != all { fail("c", t, "after clear_ignored_lints the original lints are not reported again".to_string()); }
                if linter.import_ignored_lints(exported).is_err() || rac_sigs(&linter.lint(t.to_string(), lang)) != later { fail("c", t, "export + import of the ignore list does not restore the same behaviour".to_string()); }
            }
            linter.clear_ignored_lints();
        }
    }
    // (d) custom words, on a separate linter (rebuilds are slow)
    {
        let t = "I saw a blorptang and a snizzle near teh blorptang.";
        let mut a = Linter::new(Dialect::American);
        let before = a.lint(t.to_string(), Language::Plain);
        // (vocabulary assumptions of this script - "teh", "blorptang", "snizzle" are not dictionary words - are checked, not
        // demanded: where one does not hold the dependent clause is skipped)
        let teh_flagged = before.iter().any(|l| l.get_problem_text() == "teh");
        if let Some(l) = before.iter().find(|l| l.get_problem_text() == "teh") {
            a.ignore_lint(t.to_string(), Lint::from_json(l.to_json()).unwrap());
        }
        a.import_words(vec!["blorptang".to_string()]);
        a.import_words(vec!["blorptang".to_string(), "snizzle".to_string()]);
        let after = a.lint(t.to_string(), Language::Plain);
        cases += 1; nontrivial += 1;
        if let Some(why) = rac_check_lints(t, &after) { fail("d", t, why); }
        if after.iter().any(|l| ["blorptang", "snizzle"].contains(&l.get_problem_text().as_str())) { fail("d", t, "an imported word is still reported".to_string()); }
        if teh_flagged && after.iter().any(|l| l.get_problem_text() == "teh") { fail("d", t, "the ignored lint came back after import_words rebuilt the dictionary".to_string()); }
        let mut words = a.export_words();
        words.sort();
        if words != vec!["blorptang".to_string(), "snizzle".to_string()] { fail("d", t, format!("export_words returned {:?}", words)); }
        drop(words);
        // ignoring a lint whose neighbour is a user-dictionary word (the ignore must see the same dictionary as lint)
        {
            let t2 = "We saw blorptang problm today.";
            let l2 = a.lint(t2.to_string(), Language::Plain);
            if let Some(l) = l2.iter().find(|l| l.get_problem_text() == "problm") {
                a.ignore_lint(t2.to_string(), Lint::from_json(l.to_json()).unwrap());
                if a.lint(t2.to_string(), Language::Plain).iter().any(|l| l.get_problem_text() == "problm") {
                    fail("d", t2, "a lint next to an imported word is still reported after ignore_lint".to_string());
                }
            }
            // a user word that differs from a curated entry only in capitalisation is accepted in the user's spelling
            let t3 = "They write markdown and harper daily.";
            let before3 = a.lint(t3.to_string(), Language::Plain);
            let flagged: Vec<String> = before3.iter().filter(|l| l.lint_kind() == "Spelling").map(|l| l.get_problem_text()).collect();
            if !flagged.is_empty() {
                a.import_words(flagged.clone());
                if a.lint(t3.to_string(), Language::Plain).iter().any(|l| l.lint_kind() == "Spelling" && flagged.contains(&l.get_problem_text())) {
                    fail("d", t3, format!("the imported words {:?} are still reported as misspelt", flagged));
                }
            }
        }
        let mut words = a.export_words();
        words.sort();
        let after = a.lint(t.to_string(), Language::Plain);
        let mut b = Linter::new(Dialect::American);
        b.import_words(words);
        if b.import_ignored_lints(a.export_ignored_lints()).is_err() || rac_sigs(&b.lint(t.to_string(), Language::Plain)) != rac_sigs(&after) {
            fail("d", t, "a fresh linter fed with the exported words and ignore list behaves differently".to_string());
        }
    }
    // (e) configuration
    {
        let t = "There is an an apple on teh table.";
        let mut c = Linter::new(Dialect::American);
        let default_lints = c.lint(t.to_string(), Language::Plain);
        if c.set_lint_config_from_json("{ \"SpellCheck\": false, \"RepeatedWords\": false, \"NoSuchRule\": true, \"AnA\": null }".to_string()).is_err() { fail("e", t, "configuration rejected".to_string()); }
        let cfg = c.get_lint_config_as_json();
        let first = c.lint(t.to_string(), Language::Plain);
        cases += 1; nontrivial += 1;
        // demanded only if the rule names used above exist in this tree and the curated defaults flag the text
        let known = get_default_lint_config_as_json();
        if known.contains("\"SpellCheck\"") && default_lints.iter().any(|l| l.lint_kind() == "Spelling") && first.iter().any(|l| l.lint_kind() == "Spelling") {
            fail("e", t, "SpellCheck is switched off but a spelling lint is still reported".to_string());
        }
        let second = c.lint(t.to_string(), Language::Plain);
        if rac_sigs(&first) != rac_sigs(&second) { fail("e", t, "linting the same text twice under the same configuration gives different lints".to_string()); }
        if c.get_lint_config_as_json() != cfg { fail("e", t, "lint changed the stored configuration".to_string()); }
        c.import_words(vec!["zzyzx".to_string()]);
        if rac_sigs(&c.lint(t.to_string(), Language::Plain)) != rac_sigs(&first) { fail("e", t, "the user configuration was lost when the dictionary was rebuilt".to_string()); }
    }
    // (g) statistics: applying suggestions logs records; importing another linter's log appends it after the own records
    {
        let t = "There is an an apple on teh table.";
        let mut x = Linter::new(Dialect::American);
        let mut y = Linter::new(Dialect::American);
        let lx = x.lint(t.to_string(), Language::Plain);
        let mut applied = 0;
        for l in lx.iter() { if let Some(sg) = l.suggestions().first() { let _ = x.apply_suggestion(t.to_string(), l, sg); applied += 1; } }
        let ly = y.lint(t.to_string(), Language::Plain);
        if let Some(l) = ly.iter().find(|l| l.suggestion_count() > 0) { let sg = l.suggestions(); let _ = y.apply_suggestion(t.to_string(), l, &sg[0]); }
        let fx = x.generate_stats_file();
        let fy = y.generate_stats_file();
        cases += 1;
        if applied >= 2 && fy.lines().count() == 1 {
            nontrivial += 1;
            if y.import_stats_file(fx.clone()).is_err() { fail("g", t, "import_stats_file rejected a generated stats file".to_string()); }
            let merged = y.generate_stats_file();
            if merged != format!("{}{}", fy, fx) {
                fail("g", t, format!("after importing {} records into a log of 1 the log is not the own record followed by the imported ones", applied));
            }
        }
    }
    // (f) title case
    for t in ["a tale of two cities\n", "war and peace\r\n", "\n", "the end", "of mice and men\n\n", "videopress rocks\r\n"] {
        cases += 1;
        let got = std::panic::catch_unwind(|| to_title_case(t.to_string()));
        let Ok(g) = got else { fail("f", t, "to_title_case panicked".to_string()) };
        let (a, b): (Vec<char>, Vec<char>) = (t.chars().collect(), g.chars().collect());
        if a.len() != b.len() || (0..a.len()).any(|i| a[i] != b[i] && !a[i].to_lowercase().eq(b[i].to_lowercase())) {
            fail("f", t, format!("to_title_case returned {:?}", g));
        }
    }
    println!("RAC-OK wasm_api cases={} nontrivial={} bound=35-texts-x-2-languages;ignore-first-3-lints-each;one-scripted-sequence-each-for-words,configuration", cases, nontrivial);
}
