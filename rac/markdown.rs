// Runtime contract check of the Markdown front-end (attached to harper-core/src/parsers/markdown.rs).
// BOUNDED stand-in (pulldown-cmark is external; the byte->char bookkeeping is str code outside both
// verifiers): for every concatenation of up to 4 fragments from a list with wikilinks (also malformed ones), multi-byte characters in
// prose, link text, link targets, inline code and emphasis, and both link-title options, the tokens that
// cover characters lie inside the text, in increasing non-overlapping order; zero-width tokens are only
// structural breaks (newline / paragraph break).
// progress watchdog (C01: never hangs): every input takes milliseconds; an input that is still being
// processed after 20 s is reported as non-terminating and the test process is ended
#[allow(dead_code)]
fn rac_watchdog(name: &'static str) -> std::sync::Arc<std::sync::Mutex<Option<(u64, String)>>> {
    let cur = std::sync::Arc::new(std::sync::Mutex::new(None::<(u64, String)>));
    let c2 = cur.clone();
    std::thread::spawn(move || {
        let mut last: Option<(u64, String)> = None;
        let mut since = std::time::Instant::now();
        loop {
            std::thread::sleep(std::time::Duration::from_secs(1));
            let c = c2.lock().unwrap().clone();
            if c != last {
                last = c;
                since = std::time::Instant::now();
            } else if last.is_some() && since.elapsed().as_secs() >= 20 {
                println!("RAC-CEX {} {{\"text\": {:?}, \"why\": \"did not terminate within 20 s (other inputs take milliseconds)\"}}", name, last.unwrap().1);
                std::process::exit(1);
            }
        }
    });
    cur
}

#[test]
fn rac_markdown_tokens() {
    let wd = rac_watchdog("markdown_tokens");
    let frags = ["word ", "é😀 ", "[日本語の説明書](x) ", "[a](https://e.com/é) ", "`c😀de` ", "*emph* ", "\n\n", "\n", "# H\n", "- item\n", "| a | b |\n", "1. x\n", "<b>t</b> ", "\\[a- ", "[[|alias|300]] ", "\\[[a|b|c]] ", "[[a|b [[c]] |d]] ", "[[page|shown]] ", "<!-- café --> ", "<abbr title=\"naïve\">x</abbr> ", "<div>🤷</div>\n"];
    let mut texts: Vec<String> = vec![String::new()];
    let mut frontier: Vec<String> = vec![String::new()];
    for _ in 0..4 {
        let mut next = vec![];
        for t in &frontier {
            for f in frags.iter() {
                next.push(format!("{}{}", t, f));
            }
        }
        texts.extend(next.iter().cloned());
        frontier = next;
    }
    let mut cases = 0u64;
    let mut nontrivial = 0u64;
    for ignore in [false, true] {
        let parser = Markdown::new(MarkdownOptions { ignore_link_title: ignore });
        for t in &texts {
            *wd.lock().unwrap() = Some((cases, t.clone()));
            let cs: Vec<char> = t.chars().collect();
            let r = std::panic::catch_unwind(|| parser.parse(&cs));
            cases += 1;
            let mut bad: Option<String> = None;
            match &r {
                Err(_) => bad = Some("panicked".to_string()),
                Ok(toks) => {
                    let mut cur = 0usize;
                    for (i, tok) in toks.iter().enumerate() {
                        if tok.span.start > tok.span.end || tok.span.end > cs.len() {
                            bad = Some(format!("token #{} {:?} [{}, {}) is outside the text of {} chars", i, tok.kind, tok.span.start, tok.span.end, cs.len()));
                            break;
                        }
                        if tok.span.start < tok.span.end {
                            if tok.span.start < cur {
                                bad = Some(format!("token #{} {:?} [{}, {}) overlaps or precedes the previous covering token ending at {}", i, tok.kind, tok.span.start, tok.span.end, cur));
                                break;
                            }
                            cur = tok.span.end;
                        } else if !matches!(tok.kind, TokenKind::ParagraphBreak | TokenKind::Newline(_)) {
                            bad = Some(format!("zero-width token #{} of kind {:?}", i, tok.kind));
                            break;
                        }
                    }
                    if toks.len() > 3 { nontrivial += 1; }
                }
            }
            if let Some(why) = bad {
                println!("RAC-CEX markdown_tokens {{\"ignore_link_title\": {}, \"text\": {:?}, \"why\": {:?}}}", ignore, t, why);
                panic!("markdown token contract violated");
            }
        }
    }
    // the same contract after the document-level condensing passes (contractions, ellipses, Latin abbreviations, ...),
    // which assume that the tokens they merge are adjacent in the source: Markdown escapes and line ends break that
    // assumption, the result must stay ordered and disjoint all the same
    let dfrags = ["don\\'t stop ", "Wait.\\.. ", "et\r\nal. ", "vs\\. them ", "etc\\. ", "we\\'ve ", "word ", "é😀 ", "\n\n", "e.\\g. ", "1\\st "];
    let mut dtexts: Vec<String> = vec![];
    for a in dfrags.iter() { dtexts.push(a.to_string()); for b in dfrags.iter() { dtexts.push(format!("{}{}", a, b)); for c in dfrags.iter() { dtexts.push(format!("{}{}{}", a, b, c)); } } }
    for t in &dtexts {
        *wd.lock().unwrap() = Some((cases, t.clone()));
        let n = t.chars().count();
        cases += 1;
        let r = std::panic::catch_unwind(|| {
            let doc = crate::Document::new_markdown_default_curated(t);
            doc.get_tokens().iter().map(|t| (t.span.start, t.span.end, matches!(t.kind, TokenKind::ParagraphBreak | TokenKind::Newline(_)))).collect::<Vec<_>>()
        });
        let mut bad: Option<String> = None;
        match r {
            Err(_) => bad = Some("building the document panicked".to_string()),
            Ok(toks) => {
                let mut cur = 0usize;
                for (i, (s0, e0, brk)) in toks.iter().enumerate() {
                    if s0 > e0 || *e0 > n { bad = Some(format!("document token #{} [{}, {}) is outside the text of {} chars", i, s0, e0, n)); break; }
                    if s0 < e0 {
                        if *s0 < cur { bad = Some(format!("document token #{} [{}, {}) overlaps or precedes the previous covering token ending at {}", i, s0, e0, cur)); break; }
                        cur = *e0;
                    } else if !brk { bad = Some(format!("zero-width non-break document token #{}", i)); break; }
                }
                if toks.len() > 3 { nontrivial += 1; }
            }
        }
        if let Some(why) = bad {
            println!("RAC-CEX markdown_tokens {{\"stage\": \"document\", \"text\": {:?}, \"why\": {:?}}}", t, why);
            panic!("markdown document token contract violated");
        }
    }
    *wd.lock().unwrap() = None;
    println!("RAC-OK markdown_tokens cases={} nontrivial={} bound=<=4-of-21-fragments,both-link-title-options+documents-of-<=3-of-11-escape-fragments", cases, nontrivial);
}
