// Runtime contract check of the Markdown front-end (attached to harper-core/src/parsers/markdown.rs).
// BOUNDED stand-in (pulldown-cmark is external; the byte->char bookkeeping is str code outside both
// verifiers): for every concatenation of up to 4 fragments from a list with wikilinks (also malformed ones), multi-byte characters in
// prose, link text, link targets, inline code and emphasis, and both link-title options, the tokens that
// cover characters lie inside the text, in increasing non-overlapping order; zero-width tokens are only
// structural breaks (newline / paragraph break).
#[test]
fn rac_markdown_tokens() {
    let frags = ["word ", "é😀 ", "[日本語の説明書](x) ", "[a](https://e.com/é) ", "`c😀de` ", "*emph* ", "\n\n", "\n", "# H\n", "- item\n", "| a | b |\n", "1. x\n", "<b>t</b> ", "\\[a- ", "[[|alias|300]] ", "\\[[a|b|c]] ", "[[a|b [[c]] |d]] ", "[[page|shown]] ", "<!-- café --> ", "<abbr title=\"naïve\">x</abbr> ", "<div>🤷</div>\n"];
    let mut texts: Vec<String> = vec![String::new()];
    let mut frontier: Vec<String> = vec![String::new()];
    for _ in 0..4 {
        let mut next = vec![];
        for t in &frontier {
            for f in frags.iter() {
                next.push(format!("{}{}", t, f));
            }
        }
        texts.extend(next.iter().cloned());
        frontier = next;
    }
    let mut cases = 0u64;
    let mut nontrivial = 0u64;
    for ignore in [false, true] {
        let parser = Markdown::new(MarkdownOptions { ignore_link_title: ignore });
        for t in &texts {
            let cs: Vec<char> = t.chars().collect();
            let r = std::panic::catch_unwind(|| parser.parse(&cs));
            cases += 1;
            let mut bad: Option<String> = None;
            match &r {
                Err(_) => bad = Some("panicked".to_string()),
                Ok(toks) => {
                    let mut cur = 0usize;
                    for (i, tok) in toks.iter().enumerate() {
                        if tok.span.start > tok.span.end || tok.span.end > cs.len() {
                            bad = Some(format!("token #{} {:?} [{}, {}) is outside the text of {} chars", i, tok.kind, tok.span.start, tok.span.end, cs.len()));
                            break;
                        }
                        if tok.span.start < tok.span.end {
                            if tok.span.start < cur {
                                bad = Some(format!("token #{} {:?} [{}, {}) overlaps or precedes the previous covering token ending at {}", i, tok.kind, tok.span.start, tok.span.end, cur));
                                break;
                            }
                            cur = tok.span.end;
                        } else if !matches!(tok.kind, TokenKind::ParagraphBreak | TokenKind::Newline(_)) {
                            bad = Some(format!("zero-width token #{} of kind {:?}", i, tok.kind));
                            break;
                        }
                    }
                    if toks.len() > 3 { nontrivial += 1; }
                }
            }
            if let Some(why) = bad {
                println!("RAC-CEX markdown_tokens {{\"ignore_link_title\": {}, \"text\": {:?}, \"why\": {:?}}}", ignore, t, why);
                panic!("markdown token contract violated");
            }
        }
    }
    println!("RAC-OK markdown_tokens cases={} nontrivial={} bound=<=4-of-21-fragments,both-link-title-options", cases, nontrivial);
}
