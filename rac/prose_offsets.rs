// Runtime contract check of "only prose is checked, at its true position" (attached to
// harper-comments/src/comment_parser.rs).
// BOUNDED stand-in for C04 (the front-ends wrap tree-sitter / pulldown-cmark, which cannot be given checked
// contracts). Files are ASSEMBLED from segments whose prose words are known by construction, so the ground truth
// needs no second parser: for 7 languages (rust, python, c, javascript, java, go, lua) and Markdown, every
// concatenation of up to 3 segments out of 14 per language (code with multi-byte string literals, line / block / doc
// comments with multi-byte text between the words, a comment carrying an ignore marker (fenced by code on both
// sides: adjacent comments are merged into one block and dropped together, which the property allows), inline code inside a
// comment, CR LF line ends, indentation): the Word tokens of the document are EXACTLY the declared prose words, each
// at its declared character offset - nothing from code, string literals, inline code or ignored comments, nothing
// missing, nothing shifted.
use harper_core::{Document, TokenKind};

struct RacSeg { text: &'static str, words: &'static [&'static str] }

// words are located by searching the segment text left to right, so a declared word must not occur earlier in its
// segment as part of non-prose text
fn rac_expected(segs: &[&RacSeg]) -> (String, Vec<(usize, usize, String)>) {
    let mut text = String::new();
    let mut out = vec![];
    for s in segs {
        let base = text.chars().count();
        let chars: Vec<char> = s.text.chars().collect();
        let mut from = 0usize;
        for w in s.words {
            let wc: Vec<char> = w.chars().collect();
            let pos = (from..=chars.len() - wc.len()).find(|&i| chars[i..i + wc.len()] == wc[..]).expect("declared word not in segment");
            out.push((base + pos, base + pos + wc.len(), w.to_string()));
            from = pos + wc.len();
        }
        text.push_str(s.text);
    }
    (text, out)
}

fn rac_run<P: harper_core::parsers::Parser>(lang: &str, parser: &P, segs: &[&RacSeg], cases: &mut u64, nontrivial: &mut u64) -> Option<String> {
    let idx: Vec<usize> = (0..segs.len()).collect();
    let mut combos: Vec<Vec<usize>> = vec![vec![]];
    let mut frontier: Vec<Vec<usize>> = vec![vec![]];
    for _ in 0..3 {
        let mut next = vec![];
        for c in &frontier { for i in &idx { let mut d = c.clone(); d.push(*i); next.push(d); } }
        combos.extend(next.iter().cloned());
        frontier = next;
    }
    for c in &combos {
        let chosen: Vec<&RacSeg> = c.iter().map(|i| segs[*i]).collect();
        let (text, want) = rac_expected(&chosen);
        *cases += 1;
        let r = std::panic::catch_unwind(std::panic::AssertUnwindSafe(|| {
            let doc = Document::new_curated(&text, parser);
            let src: Vec<char> = text.chars().collect();
            doc.get_tokens().iter().filter(|t| matches!(t.kind, TokenKind::Word(_)))
                .map(|t| (t.span.start, t.span.end, src.get(t.span.start..t.span.end).map(|s| s.iter().collect::<String>()).unwrap_or_else(|| "<outside the file>".to_string())))
                .collect::<Vec<_>>()
        }));
        match r {
            Err(_) => return Some(format!("{{\"language\": {:?}, \"text\": {:?}, \"why\": \"panicked\"}}", lang, text)),
            Ok(got) => {
                if got != want {
                    let missing: Vec<_> = want.iter().filter(|w| !got.contains(w)).take(3).collect();
                    let extra: Vec<_> = got.iter().filter(|g| !want.contains(g)).take(3).collect();
                    return Some(format!("{{\"language\": {:?}, \"text\": {:?}, \"why\": \"the word tokens are not exactly the prose words at their offsets\", \"prose_words_missing\": {:?}, \"unexpected_words\": {:?}}}", lang, text, missing, extra));
                }
                if !want.is_empty() && text.chars().any(|ch| ch as u32 > 0x7f) { *nontrivial += 1; }
            }
        }
    }
    None
}

#[test]
fn rac_prose_offsets() {
    // C-family segments (rust, c, javascript, java, go share `//` and `/* */`)
    const SLASH: &[RacSeg] = &[
        RacSeg { text: "// alpha beta\n", words: &["alpha", "beta"] },
        RacSeg { text: "let s = \"strïng wörd é😀\"; ", words: &[] },
        RacSeg { text: "    // naïve é😀 gamma\r\n", words: &["naïve", "é", "gamma"] },
        RacSeg { text: "/* delta 😀 epsilon */ ", words: &["delta", "epsilon"] },
        RacSeg { text: "x = 1; // tail words here\n", words: &["tail", "words", "here"] },
        RacSeg { text: "k(); // harper:ignore secret words\nk();\n", words: &[] },
        RacSeg { text: "// use `code_word` there\n", words: &["use", "there"] },
        RacSeg { text: "y = '😀'; /* after emoji */\n", words: &["after", "emoji"] },
        RacSeg { text: "\n", words: &[] },
        RacSeg { text: "/*\n * first line\n * second ünï line\n */\n", words: &["first", "line", "second", "ünï", "line"] },
        RacSeg { text: "\t// tabbed comment\n", words: &["tabbed", "comment"] },
        RacSeg { text: "z(\"// not a comment é\");\n", words: &[] },
        RacSeg { text: "// 日本語 mixed text\n", words: &["mixed", "text"] },
        RacSeg { text: "/// doc words é\n", words: &["doc", "words", "é"] },
    ];
    const HASH: &[RacSeg] = &[
        RacSeg { text: "# alpha beta\n", words: &["alpha", "beta"] },
        RacSeg { text: "s = \"strïng wörd é😀\"\n", words: &[] },
        RacSeg { text: "    # naïve é😀 gamma\r\n", words: &["naïve", "é", "gamma"] },
        RacSeg { text: "x = 1 # tail words here\n", words: &["tail", "words", "here"] },
        RacSeg { text: "k() # harper:ignore secret words\nk()\n", words: &[] },
        RacSeg { text: "# use `code_word` there\n", words: &["use", "there"] },
        RacSeg { text: "y = '😀' # after emoji\n", words: &["after", "emoji"] },
        RacSeg { text: "\n", words: &[] },
        RacSeg { text: "z(\"# not a comment é\")\n", words: &[] },
        RacSeg { text: "# 日本語 mixed text\n", words: &["mixed", "text"] },
    ];
    const DASH: &[RacSeg] = &[
        RacSeg { text: "-- alpha beta\n", words: &["alpha", "beta"] },
        RacSeg { text: "s = \"strïng wörd é😀\"\n", words: &[] },
        RacSeg { text: "    -- naïve é😀 gamma\n", words: &["naïve", "é", "gamma"] },
        RacSeg { text: "x = 1 -- tail words here\n", words: &["tail", "words", "here"] },
        RacSeg { text: "k() -- harper:ignore secret words\nk()\n", words: &[] },
        RacSeg { text: "y = '😀' -- after emoji\n", words: &["after", "emoji"] },
        RacSeg { text: "\n", words: &[] },
    ];
    const MD: &[RacSeg] = &[
        RacSeg { text: "alpha beta\n\n", words: &["alpha", "beta"] },
        RacSeg { text: "# naïve é😀 gamma\n\n", words: &["naïve", "é", "gamma"] },
        RacSeg { text: "`code_word é😀` after code\n\n", words: &["after", "code"] },
        RacSeg { text: "```\nfenced wörds 😀\n```\n\n", words: &[] },
        RacSeg { text: "- item one\n- item 😀 two\n\n", words: &["item", "one", "item", "two"] },
        RacSeg { text: "[link text](https://example.com/é) tail\n\n", words: &["link", "text", "tail"] },
        RacSeg { text: "<b>😀</b> bold words\n\n", words: &["bold", "words"] },
        RacSeg { text: "| cell one | cell 😀 two |\n|---|---|\n| three | four |\n\n", words: &["cell", "one", "cell", "two", "three", "four"] },
        RacSeg { text: "日本語 mixed text\n\n", words: &["mixed", "text"] },
        // a character reference is markup, not prose, and must not shift what follows
        RacSeg { text: "rights &copy; reserved &#169; here &amp; there\n\n", words: &["rights", "reserved", "here", "there"] },
        RacSeg { text: "*emphasis* and **strong é** words\n\n", words: &["emphasis", "and", "strong", "é", "words"] },
    ];
    let mut cases = 0u64;
    let mut nontrivial = 0u64;
    let langs: [(&str, &[RacSeg]); 7] = [("rust", SLASH), ("c", SLASH), ("javascript", SLASH), ("java", SLASH), ("go", SLASH), ("python", HASH), ("lua", DASH)];
    for (lang, segs) in langs.iter() {
        let parser = CommentParser::new_from_language_id(lang, MarkdownOptions::default()).unwrap();
        // JavaDoc comments are HTML, not Markdown: a back-tick does not open inline code there
        let segs: Vec<&RacSeg> = segs.iter().filter(|s| *lang != "java" || !s.text.contains('`')).collect();
        if let Some(cex) = rac_run(lang, &parser, &segs, &mut cases, &mut nontrivial) {
            println!("RAC-CEX prose_offsets {}", cex);
            panic!("prose-offset contract violated");
        }
    }
    let md = harper_core::parsers::Markdown::default();
    let mdsegs: Vec<&RacSeg> = MD.iter().collect();
    if let Some(cex) = rac_run("markdown", &md, &mdsegs, &mut cases, &mut nontrivial) {
        println!("RAC-CEX prose_offsets {}", cex);
        panic!("prose-offset contract violated");
    }
    println!("RAC-SAMPLE prose_offsets {{\"language\": \"rust\", \"file\": {:?}, \"prose_words\": [\"naïve\", \"gamma\", \"after\", \"emoji\"]}}", "    // naïve é😀 gamma\r\ny = '😀'; /* after emoji */\n");
    println!("RAC-OK prose_offsets cases={} nontrivial={} bound=7-languages+markdown,<=3-of-<=14-segments-with-known-prose-words", cases, nontrivial);
}

// ---- single-file probes for shapes the segment grammar above does not produce. Each is its own obligation (rac:c04_*), so
// that a shape recorded as a known finding does not hide any other failure of the prose-offset contract. ----
fn rac_c04_words(lang: &str, src: &str) -> Result<Vec<String>, String> {
    let parser = crate::CommentParser::new_from_language_id(lang, harper_core::parsers::MarkdownOptions::default()).ok_or("no parser")?;
    std::panic::catch_unwind(std::panic::AssertUnwindSafe(|| {
        let d = Document::new_curated(src, &parser);
        d.get_tokens().iter().filter(|t| matches!(t.kind, TokenKind::Word(_))).map(|t| d.get_span_content_str(&t.span)).collect::<Vec<_>>()
    })).map_err(|_| "panicked".to_string())
}
fn rac_c04_probe(name: &str, cases: &[(&str, &str, &[&str])]) {
    // every case is evaluated and ALL failing ones are reported in one line: a known finding is identified by the complete payload
    let mut failing = vec![];
    for (lang, src, want) in cases {
        let got = rac_c04_words(lang, src);
        let ok = matches!(&got, Ok(g) if g.iter().map(|s| s.as_str()).collect::<Vec<_>>() == want.to_vec());
        if !ok { failing.push(format!("{{\"language\": {:?}, \"file\": {:?}, \"prose_words\": {:?}, \"words_seen\": {:?}}}", lang, src, want, got)); }
    }
    if !failing.is_empty() {
        println!("RAC-CEX {} [{}]", name, failing.join(", "));
        panic!("prose-offset contract violated");
    }
    println!("RAC-OK {} cases={} nontrivial={} bound={}-fixed-file(s)", name, cases.len(), cases.len(), cases.len());
}
#[test]
fn rac_c04_jsdoc_fence() {
    rac_c04_probe("c04_jsdoc_fence", &[("javascript", "/**\n * Example:\n * ```js\n * compute();\n * ```\n * Done here.\n */\nfunction f() {}\n", &["Example", "Done", "here"])]);
}
#[test]
fn rac_c04_tilde_fence() {
    rac_c04_probe("c04_tilde_fence", &[("rust", "/// Before words.\n/// ~~~\n/// let total = compute();\n/// ~~~\n/// After words.\nfn f() {}\n", &["Before", "words", "After", "words"])]);
}
#[test]
fn rac_c04_go_directive() {
    rac_c04_probe("c04_go_directive", &[
        ("go", "// Foo does things.\n//go:noinline\nfunc Foo() {}\n", &["Foo", "does", "things"]),
        ("go", "//go:build linux\n//go:generate stringer\n\n// Package foo does things.\npackage foo\n", &["Package", "foo", "does", "things"]),
    ]);
}
#[test]
fn rac_c04_javadoc_pre() {
    rac_c04_probe("c04_javadoc_pre", &[("java", "class A {\n  /**\n   * Foo bar.\n   * <pre>\n   * int total = compute();\n   * </pre>\n   */\n  int f() { return 1; }\n}\n", &["Foo", "bar"])]);
}
#[test]
fn rac_c04_javadoc_return() {
    rac_c04_probe("c04_javadoc_return", &[("java", "class A {\n  /** Foo bar.\n   * @return the value */\n  int f() { return 1; }\n}\n", &["Foo", "bar", "the", "value"])]);
}

// files of shapes that came up in seeded changes (a back-tick fence that contains a `~~~` line; a comment line that starts with a
// Markdown link; a leading //go: directive): the words seen must be exactly the prose words
#[test]
fn rac_c04_fixed_files() {
    rac_c04_probe("c04_fixed_files", &[
        ("rust", "/// Before words.\n/// ```\n/// ~~~\n/// let zeta = 1;\n/// ```\n/// After words.\nfn f() {}\n", &["Before", "words", "After", "words"]),
        ("python", "# Before words.\n# ```\n# ~~~\n# zeta = 1\n# ```\n# After words.\nx = 1\n", &["Before", "words", "After", "words"]),
        ("rust", "// [guide](../handbook/getting_started) explains it\nfn f() {}\n", &["guide", "explains", "it"]),
        ("javascript", "/**\n * [guide](../handbook/getting_started) explains it\n */\nfunction f() {}\n", &["guide", "explains", "it"]),
        ("rust", "// See the [manual][1] first\n//\n// [1]: manual/chapter/intro\nfn f() {}\n", &["See", "the", "manual", "first"]),
        ("go", "//go:build linux\n// Package foo does things.\npackage foo\n", &["Package", "foo", "does", "things"]),
    ]);
}
