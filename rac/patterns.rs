// Runtime contract check of the Pattern trait contract (attached to harper-core/src/linting/pattern_linter.rs, where run_on_chunk is visible):
// for pattern trees of depth <= 2 built from the combinators under contract, and every token list of
// length 0..=3 over {Word, Space, Punct}, `matches` returns at most tokens.len() and does not panic;
// run_on_chunk and find_all_matches do not panic on the same inputs.
use crate::patterns::*;
use crate::{Punctuation, Span, TokenKind};

fn rac_leaf(k: usize) -> Box<dyn Pattern> {
    match k {
        0 => Box::new(AnyPattern),
        1 => Box::new(|t: &Token, _s: &[char]| t.kind.is_word()),
        2 => Box::new(WhitespacePattern),
        3 => Box::new(NominalPhrase),
        _ => Box::new(|t: &Token, _s: &[char]| t.kind.is_punctuation()),
    }
}
const RAC_LEAVES: usize = 5;

fn rac_unary(k: usize, p: Box<dyn Pattern>) -> Box<dyn Pattern> {
    match k {
        0 => p,
        1 => Box::new(Invert::new(RacBoxed(p))),
        2 => Box::new(RepeatingPattern::new(p, 0)),
        3 => Box::new(RepeatingPattern::new(p, 1)),
        _ => Box::new(ConsumesRemainingPattern::new(p)),
    }
}
const RAC_UNARY: usize = 5;

struct RacBoxed(Box<dyn Pattern>);
impl Pattern for RacBoxed {
    fn matches(&self, tokens: &[Token], source: &[char]) -> usize {
        self.0.matches(tokens, source)
    }
}

fn rac_binary(k: usize, a: Box<dyn Pattern>, b: Box<dyn Pattern>) -> Box<dyn Pattern> {
    match k {
        0 => Box::new(SequencePattern::default().then(RacBoxed(a)).then(RacBoxed(b))),
        1 => Box::new(EitherPattern::new(vec![a, b])),
        _ => {
            Box::new(All::new(vec![a, b]))
        }
    }
}
const RAC_BINARY: usize = 3;

struct RacLinter(RacBoxed);
impl PatternLinter for RacLinter {
    fn pattern(&self) -> &dyn Pattern { &self.0 }
    fn match_to_lint(&self, matched: &[Token], _source: &[char]) -> Option<Lint> {
        assert!(!matched.is_empty());
        None
    }
    fn description(&self) -> &str { "rac" }
}

fn rac_token_lists() -> Vec<(Vec<Token>, Vec<char>)> {
    let kinds = [TokenKind::Word(None), TokenKind::Space(1), TokenKind::Punctuation(Punctuation::Period)];
    let mut out = vec![];
    for len in 0..=3usize {
        for code in 0..3usize.pow(len as u32) {
            let mut c = code;
            let mut toks = vec![];
            let mut src = vec![];
            for i in 0..len {
                let k = c % 3;
                c /= 3;
                toks.push(Token::new(Span::new(i, i + 1), kinds[k].clone()));
                src.push(['a', ' ', '.'][k]);
            }
            out.push((toks, src));
        }
    }
    out
}

#[test]
fn rac_pattern_contract() {
    let lists = rac_token_lists();
    let mut cases = 0u64;
    let mut nontrivial = 0u64;
    for b in 0..RAC_BINARY {
        for u1 in 0..RAC_UNARY {
            for l1 in 0..RAC_LEAVES {
                for u2 in 0..RAC_UNARY {
                    for l2 in 0..RAC_LEAVES {
                        let desc = format!("binary#{}(unary#{}(leaf#{}), unary#{}(leaf#{}))", b, u1, l1, u2, l2);
                        let pat = rac_binary(b, rac_unary(u1, rac_leaf(l1)), rac_unary(u2, rac_leaf(l2)));
                        let linter = RacLinter(RacBoxed(pat));
                        for (toks, src) in &lists {
                            let r = std::panic::catch_unwind(std::panic::AssertUnwindSafe(|| linter.0.matches(toks, src)));
                            cases += 1;
                            let ok = matches!(r, Ok(n) if n <= toks.len());
                            if matches!(r, Ok(n) if n > 0) { nontrivial += 1; }
                            let show: String = src.iter().collect();
                            if !ok {
                                println!("RAC-CEX pattern_contract {{\"pattern\": \"{}\", \"tokens\": {:?}, \"matches\": {:?}}}", desc, show, r.ok());
                                panic!("Pattern contract violated");
                            }
                            let r2 = std::panic::catch_unwind(std::panic::AssertUnwindSafe(|| {
                                run_on_chunk(&linter, toks, src);
                                linter.0.find_all_matches(toks, src).len()
                            }));
                            if r2.is_err() {
                                println!("RAC-CEX pattern_contract {{\"pattern\": \"{}\", \"tokens\": {:?}, \"panicked_in\": \"run_on_chunk/find_all_matches\"}}", desc, show);
                                panic!("run_on_chunk / find_all_matches panicked");
                            }
                        }
                    }
                }
            }
        }
    }
    println!("RAC-OK pattern_contract cases={} nontrivial={} bound=tokens<=3,pattern-depth<=2", cases, nontrivial);
}
