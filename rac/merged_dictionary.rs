// Runtime contract check of MergedDictionary (attached to harper-core/src/spell/merged_dictionary.rs):
// for every pair of child dictionaries drawn from all subsets of {ab, Ab, a, b, B} (in both orders,
// plus the empty and single-child cases) and every query over the same words plus "", "ba", "abc":
// contains_word / contains_exact_word equal the union of the children, and
// get_correct_capitalization_of / get_word_metadata are decided by the first child that knows the word.
use crate::{CharString, MutableDictionary};

fn rac_dict(words: &[&str]) -> Arc<dyn Dictionary> {
    let mut d = MutableDictionary::new();
    d.extend_words(words.iter().map(|w| (w.chars().collect::<CharString>(), WordMetadata::default())));
    Arc::new(d)
}

#[test]
fn rac_merged_union() {
    let universe = ["ab", "Ab", "a", "b", "B"];
    let queries = ["ab", "Ab", "AB", "aB", "b", "B", "", "ba", "abc"];
    let mut subsets: Vec<Vec<&str>> = vec![];
    for mask in 0u32..(1 << universe.len()) {
        subsets.push((0..universe.len()).filter(|i| mask & (1 << i) != 0).map(|i| universe[i]).collect());
    }
    let mut cases = 0u64;
    let mut nontrivial = 0u64;
    let mut configs: Vec<Vec<&Vec<&str>>> = vec![vec![]];
    for a in &subsets {
        configs.push(vec![a]);
        for b in &subsets {
            configs.push(vec![a, b]);
        }
    }
    for cfg in &configs {
        let children: Vec<Arc<dyn Dictionary>> = cfg.iter().map(|ws| rac_dict(ws)).collect();
        let mut merged = MergedDictionary::new();
        for c in &children {
            merged.add_dictionary(c.clone());
        }
        for q in queries.iter() {
            let qc: Vec<char> = q.chars().collect();
            cases += 1;
            let want_member = children.iter().any(|c| c.contains_word(&qc));
            let want_exact = children.iter().any(|c| c.contains_exact_word(&qc));
            let want_cap = children.iter().find_map(|c| c.get_correct_capitalization_of(&qc)).map(|w| w.to_vec());
            let want_meta = children.iter().any(|c| c.get_word_metadata(&qc).is_some());
            if want_member { nontrivial += 1; }
            let got = (merged.contains_word(&qc), merged.contains_exact_word(&qc),
                       merged.get_correct_capitalization_of(&qc).map(|w| w.to_vec()), merged.get_word_metadata(&qc).is_some());
            // fuzzy search on the merged dictionary returns the closest max_results words of the union
            for cap in [1usize, 2, 10] {
                let res = merged.fuzzy_match(&qc, 2, cap);
                let mut union: Vec<(u8, Vec<char>)> = vec![];
                for c in &children { for r in c.fuzzy_match(&qc, 2, 100) { if !union.iter().any(|(_, w)| w[..] == *r.word) { union.push((r.edit_distance, r.word.to_vec())); } } }
                union.sort();
                let mut why: Option<String> = None;
                if res.len() > cap { why = Some(format!("{} results exceed the cap {}", res.len(), cap)); }
                if res.windows(2).any(|w| w[0].edit_distance > w[1].edit_distance) { why = Some("results not ordered by distance".to_string()); }
                if res.len() < cap.min(union.len()) { why = Some(format!("only {} results although the parts offer {}", res.len(), union.len())); }
                if let (Some(last), true) = (res.last(), union.len() > res.len()) {
                    // nothing strictly closer than the worst returned result may be left out
                    if union.iter().any(|(d, w)| *d < last.edit_distance && !res.iter().any(|r| *r.word == w[..])) {
                        why = Some(format!("a closer word of the union is missing (cap {})", cap));
                    }
                }
                if let Some(w) = why {
                    println!("RAC-CEX merged_union {{\"children\": {:?}, \"query\": {:?}, \"fuzzy\": {:?}}}", cfg, q, w);
                    panic!("merged fuzzy search is not the closest-k of the union");
                }
            }
            if got != (want_member, want_exact, want_cap.clone(), want_meta) {
                println!("RAC-CEX merged_union {{\"children\": {:?}, \"query\": {:?}, \"got(member,exact,cap,meta)\": {:?}, \"want\": {:?}}}",
                         cfg, q, got, (want_member, want_exact, want_cap, want_meta));
                panic!("merged dictionary is not the union of its parts");
            }
        }
    }
    println!("RAC-OK merged_union cases={} nontrivial={} bound=2-children-over-5-words,9-queries", cases, nontrivial);
}
