// Runtime contract check of the ignore list (attached to harper-core/src/ignored_lints/mod.rs).
// BOUNDED stand-in for C14 (the contract of ignore_lint / is_ignored / remove_ignored rests on DefaultHasher
// over a derived Hash, hashbrown and Vec::retain: outside both verifiers). For every sentence of the
// repository's own rule tests (harvested on every run) that produces at least one lint, and each lint l of it:
//  (a) after ignore_lint(l), remove_ignored on a fresh lint run of the same text no longer reports l, keeps the
//      order of the rest, and every lint it hides agrees with l in kind, message, suggestions and flagged text;
//  (b) exporting the list (serde_json) and importing it again hides exactly the same lints;
//  (c) l stays ignored when a paragraph is appended after / inserted before the text, provided l's span is at
//      least 4 characters away from the edit (the tokens within two characters of it are untouched); (c') likewise when
//      a word at least two characters in front of it is replaced; (b') importing an exported list on top of a non-empty
//      list hides the lints of both.
use crate::linting::{LintGroup, Linter};
use crate::{Dialect, FstDictionary};

include!("/verif/.cache/rac-gen/lint_corpus.rs");

#[test]
fn rac_ignored_lints() {
    let mut group = LintGroup::new_curated(FstDictionary::curated(), Dialect::American);
    let mut cases = 0u64;
    let mut nontrivial = 0u64;
    let prefix = "An unrelated opening paragraph.\n\n";
    let suffix = "\n\nAn unrelated closing paragraph.";
    let plen = prefix.chars().count();
    let extra = ["This is \"a test of the the quote\" handling.", "We came 2st and \"they\" came 3th."];
    let mut sampled = false;
    for t in RAC_LINT_CORPUS.iter().chain(extra.iter()) {
        if t.contains("\n\n") { continue; }
        let n = t.chars().count();
        let doc = Document::new_plain_english_curated(t);
        let lints = group.lint(&doc);
        if lints.is_empty() { continue; }
        let after = format!("{}{}", t, suffix);
        let before = format!("{}{}", prefix, t);
        let doc_after = Document::new_plain_english_curated(&after);
        let doc_before = Document::new_plain_english_curated(&before);
        let lints_after = group.lint(&doc_after);
        let lints_before = group.lint(&doc_before);
        for (k, l) in lints.iter().enumerate() {
            cases += 1;
            let mut bad: Option<String> = None;
            let r = std::panic::catch_unwind(std::panic::AssertUnwindSafe(|| {
                let mut ig = IgnoredLints::new();
                ig.ignore_lint(l, &doc);
                let mut rest = group_lint_again(t);
                ig.remove_ignored(&mut rest, &doc);
                let exported = serde_json::to_string(&ig).unwrap();
                let imported: IgnoredLints = serde_json::from_str(&exported).unwrap();
                let same_after_import = lints.iter().all(|x| ig.is_ignored(x, &doc) == imported.is_ignored(x, &doc));
                (ig, rest, same_after_import)
            }));
            match r {
                Err(_) => bad = Some("panicked".to_string()),
                Ok((ig, rest, same_after_import)) => {
                    // (a)
                    if rest.contains(l) {
                        bad = Some("the ignored lint is still reported".to_string());
                    } else {
                        let mut it = rest.iter();
                        let mut hidden = vec![];
                        let mut next = it.next();
                        for x in lints.iter() {
                            if Some(x) == next { next = it.next(); } else { hidden.push(x); }
                        }
                        if next.is_some() {
                            bad = Some("the remaining lints are not a sub-list (in order) of the lints reported before".to_string());
                        }
                        for h in hidden {
                            let same = h.lint_kind == l.lint_kind && h.message == l.message && h.suggestions == l.suggestions
                                && h.span.get_content(doc.get_source()) == l.span.get_content(doc.get_source());
                            if !same && bad.is_none() {
                                bad = Some(format!("ignoring {:?} also hid the different lint {:?}", l, h));
                            }
                        }
                        if hidden_count(&lints, &rest) > 1 { /* identical twins are legitimately hidden together */ }
                    }
                    // (b)
                    if bad.is_none() && !same_after_import {
                        bad = Some("after export + import the list hides a different set of lints".to_string());
                    }
                    // (c)
                    let mut edited = false;
                    if bad.is_none() && l.span.end + 4 <= n {
                        if let Some(x) = lints_after.iter().find(|x| x.span == l.span && x.lint_kind == l.lint_kind && x.message == l.message && x.suggestions == l.suggestions) {
                            edited = true;
                            if !ig.is_ignored(x, &doc_after) {
                                bad = Some(format!("no longer ignored after appending {:?} (span {:?})", suffix, l.span));
                            }
                        }
                    }
                    if bad.is_none() && l.span.start >= 4 {
                        if let Some(x) = lints_before.iter().find(|x| x.span.start == l.span.start + plen && x.span.end == l.span.end + plen && x.lint_kind == l.lint_kind && x.message == l.message && x.suggestions == l.suggestions) {
                            edited = true;
                            if !ig.is_ignored(x, &doc_before) {
                                bad = Some(format!("no longer ignored after inserting {:?} in front (span {:?})", prefix, l.span));
                            }
                        }
                    }
                    if edited { nontrivial += 1; }
                }
            }
            if let Some(why) = bad {
                println!("RAC-CEX ignored_lints {{\"text\": {:?}, \"lint_index\": {}, \"lint\": {:?}, \"why\": {:?}}}", t, k, format!("{:?}", l), why);
                panic!("ignore-list contract violated");
            }
            if !sampled { sampled = true; println!("RAC-SAMPLE ignored_lints {{\"text\": {:?}, \"ignored_lint\": {:?}}}", t, format!("{:?} {:?}", l.span, l.message)); }
        }
    }
    // (b') importing an exported list ON TOP OF a non-empty list hides the lints of both (either order)
    for t in ["Ths is a problm with teh text, and and it is wrng.", "I has a apple, teh end."] {
        let doc = Document::new_plain_english_curated(t);
        let lints = group.lint(&doc);
        for i in 0..lints.len().min(4) {
            for j in 0..lints.len().min(4) {
                if i == j { continue; }
                cases += 1;
                nontrivial += 1;
                let mut a = IgnoredLints::new();
                a.ignore_lint(&lints[i], &doc);
                let mut b = IgnoredLints::new();
                b.ignore_lint(&lints[j], &doc);
                let exported = serde_json::to_string(&a).unwrap();
                b.append(serde_json::from_str(&exported).unwrap());
                // ... and once more through export + import of the combined list
                let again: IgnoredLints = serde_json::from_str(&serde_json::to_string(&b).unwrap()).unwrap();
                for (name, list) in [("after import on top of a non-empty list", &b), ("after exporting and importing the combined list", &again)] {
                    if !list.is_ignored(&lints[i], &doc) || !list.is_ignored(&lints[j], &doc) {
                        println!("RAC-CEX ignored_lints {{\"text\": {:?}, \"why\": \"lints #{} and #{} were ignored separately; {} one of them is reported again\"}}", t, i, j, name);
                        panic!("ignore-list contract violated");
                    }
                }
            }
        }
    }
    // (c') the ignored lint stays ignored when a word at least two characters in front of it is edited
    for (t1, t2, word) in [("We had tea, problm solved.", "We had coffee, problm solved.", "problm"), ("Yes, problm again.", "No, problm again.", "problm"),
                           ("A cup of tea  problm here.", "A cup of cocoa  problm here.", "problm"), ("The old house; teh end.", "The new house; teh end.", "teh")] {
        cases += 1;
        let d1 = Document::new_plain_english_curated(t1);
        let d2 = Document::new_plain_english_curated(t2);
        let l1 = group.lint(&d1);
        let l2 = group.lint(&d2);
        let f1 = l1.iter().find(|l| l.span.get_content_string(d1.get_source()) == word);
        let f2 = l2.iter().find(|l| l.span.get_content_string(d2.get_source()) == word);
        if let (Some(f1), Some(f2)) = (f1, f2) {
            if f1.message == f2.message && f1.suggestions == f2.suggestions {
                nontrivial += 1;
                let mut ig = IgnoredLints::new();
                ig.ignore_lint(f1, &d1);
                if !ig.is_ignored(f2, &d2) {
                    println!("RAC-CEX ignored_lints {{\"text\": {:?}, \"edited\": {:?}, \"why\": \"the ignored lint on {:?} is reported again after a word more than two characters in front of it was edited\"}}", t1, t2, word);
                    panic!("ignore-list contract violated");
                }
            }
        }
    }
    println!("RAC-OK ignored_lints cases={} nontrivial={} bound=every-lint-of-the-harvested-rule-test-sentences;edits=append/prepend-one-paragraph", cases, nontrivial);
}

fn group_lint_again(t: &str) -> Vec<crate::linting::Lint> {
    let doc = Document::new_plain_english_curated(t);
    LintGroup::new_curated(FstDictionary::curated(), Dialect::American).lint(&doc)
}

fn hidden_count(all: &[crate::linting::Lint], rest: &[crate::linting::Lint]) -> usize { all.len() - rest.len().min(all.len()) }
