// Demonstration of defect D3: condense_dotted_initialisms drops a character from the token stream when
// a dotted initialism (or any single-letter word followed by a period) ends the document.
// Drop into harper-core/tests/ and run `cargo test -p harper-core --test D3_initialism_demo`.
use harper_core::Document;

fn assert_tiles(text: &str) {
    let doc = Document::new_plain_english_curated(text);
    let n = text.chars().count();
    let mut cur = 0;
    for t in doc.get_tokens() {
        assert_eq!(t.span.start, cur, "gap or overlap before token {:?} in {:?}", t, text);
        assert!(t.span.end > t.span.start);
        cur = t.span.end;
    }
    assert_eq!(cur, n, "tokens do not reach the end of {:?}", text);
}

#[test]
fn initialism_at_end_of_text() { assert_tiles("i.e."); }
#[test]
fn eg_at_end_of_text() { assert_tiles("See e.g."); }
#[test]
fn single_letter_before_final_period() { assert_tiles("This is plan B."); }
#[test]
fn initialism_mid_text_still_fine() { assert_tiles("Use e.g. this one."); }
