// Demonstration of defect D6: condense_number_suffixes accepted any word that merely STARTS with
// st/nd/rd/th as an ordinal suffix, so "1stuff" became one number token "1stuff" carrying suffix St
// (and CorrectNumberSuffix then pointed at the letters "ff").
// Drop into harper-core/tests/ and run `cargo test -p harper-core --test D6_number_suffix_demo`.
use harper_core::{Document, TokenKind};

fn number_tokens(text: &str) -> Vec<(String, bool)> {
    let doc = Document::new_plain_english_curated(text);
    doc.get_tokens()
        .iter()
        .filter_map(|t| match t.kind {
            TokenKind::Number(n) => Some((doc.get_span_content_str(&t.span), n.suffix.is_some())),
            _ => None,
        })
        .collect()
}

#[test]
fn word_starting_with_a_suffix_is_not_a_suffix() {
    assert_eq!(number_tokens("1stuff"), vec![("1".to_string(), false)]);
    assert_eq!(number_tokens("I have 2ndary and 3rdparty things"), vec![("2".to_string(), false), ("3".to_string(), false)]);
}
#[test]
fn real_suffixes_still_merge() {
    assert_eq!(number_tokens("the 2nd and the 600nD one"), vec![("2nd".to_string(), true), ("600nD".to_string(), true)]);
}
