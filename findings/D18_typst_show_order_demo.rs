//! Demonstration for finding D18 (properties C01 / C02): a Typst show rule was translated transform-first, so its
//! tokens came out of source order and a rule that spans two tokens built an inverted span and panicked.
use harper_core::linting::{LintGroup, Linter};
use harper_core::{Dialect, Document, FstDictionary};

#[test]
fn show_and_set_rules_keep_tokens_in_source_order() {
    for text in ["#show \"and\": [and]", "#set text(size: 12pt) if true\nand and", "#show \"teh\": name => box[teh teh]"] {
        let doc = Document::new_curated(text, &harper_typst::Typst);
        let mut end = 0;
        for t in doc.get_tokens() {
            assert!(t.span.start >= end, "{text:?}: token {:?} starts before the previous one ends", t.span);
            end = t.span.end;
        }
        LintGroup::new_curated(FstDictionary::curated(), Dialect::American).lint(&doc);
    }
}
