// Demonstration of defect D1 (fixed by /repo commit "fix: Invert pattern must not match past the end
// of the token slice"). Drop into harper-core/tests/ and run `cargo test -p harper-core --test D1_invert_demo`.
// Before the fix all three tests panic in run_on_chunk ("range end index N out of range for slice of length N-1").
use harper_core::linting::{LintGroup, Linter};
use harper_core::{Dialect, Document, FstDictionary};

fn lint(text: &str) -> usize {
    let doc = Document::new_plain_english_curated(text);
    let mut l = LintGroup::new_curated(FstDictionary::curated(), Dialect::American);
    l.lint(&doc).len()
}
#[test]
fn d1_the_how() { lint("the how"); }
#[test]
fn d1_better_then() { lint("better then "); }
#[test]
fn d1_prefixes() {
    let t = "It was the how of it, better then nothing. This is the what";
    let cs: Vec<char> = t.chars().collect();
    for i in 0..=cs.len() { let s: String = cs[..i].iter().collect(); lint(&s); }
}
