//! Demonstrations for findings D16 and D17 (property C01): two plain-English texts that make the curated rule set panic.
use harper_core::linting::{LintGroup, Linter};
use harper_core::{Dialect, Document, FstDictionary};

fn lint(text: &str) -> usize {
    let doc = Document::new_plain_english_curated(text);
    LintGroup::new_curated(FstDictionary::curated(), Dialect::American).lint(&doc).len()
}

/// D16: a blank followed by a line break between "could" and "of" hits `unreachable!()` in ModalOf.
#[test]
fn modal_of_with_blank_and_line_break() {
    lint("He could \nof done it.");
    lint("She might \n of course come.");
}

/// D17: a number with more than 65535 decimals makes `Number`'s `Display` panic inside CurrencyPlacement.
#[test]
fn number_with_very_many_decimals() {
    lint(&format!("It costs $1.{} today.", "0".repeat(70000)));
}
