//! Demonstration for finding D14 (property C04): in Go sources a line comment that follows another comment after
//! a blank line and indentation is never offered to the rules (the whole comment group is handed to the Markdown
//! parser, which reads the indented `// ...` line as a code block).
use harper_comments::CommentParser;
use harper_core::parsers::MarkdownOptions;
use harper_core::{Document, TokenKind};

#[test]
fn indented_go_comment_after_a_blank_line_is_read() {
    let source = "func f() {\n\t// The first comment is fine.\n\n\t// The second comment is read as well.\n\tx := 1\n}\n";
    let parser = CommentParser::new_from_language_id("go", MarkdownOptions::default()).unwrap();
    let doc = Document::new_curated(source, &parser);
    let chars: Vec<char> = source.chars().collect();
    let words: Vec<String> = doc
        .get_tokens()
        .iter()
        .filter(|t| matches!(t.kind, TokenKind::Word(_)))
        .map(|t| chars[t.span.start..t.span.end].iter().collect())
        .collect();
    assert_eq!(
        words,
        ["The", "first", "comment", "is", "fine", "The", "second", "comment", "is", "read", "as", "well"]
    );
}
