// Demonstration of defect D11: condense_newlines advanced its cursor twice after merging a newline token, so it
// skipped the next token and could then merge a LATER newline token across it: the surviving newline / paragraph-break
// token then spans text that another token still covers. Reachable through the comment front-ends: a JSDoc block
// ending in an HTML tag followed by line comments gives Newline, Newline, Word("plain"), Newline -> ParagraphBreak 31..45
// overlapping the word "plain" at 39..44.
// Drop into harper-comments/tests/ and run `cargo test -p harper-comments --test D11_condense_newlines_demo`.
use harper_comments::CommentParser;
use harper_core::parsers::MarkdownOptions;
use harper_core::{Document, TokenKind};

#[test]
fn break_tokens_do_not_swallow_words() {
    let src = "/**\n * Returns the name.\n * <p>\n */\n// plain\n// A naive approach\n";
    let parser = CommentParser::new_from_language_id("javascript", MarkdownOptions::default()).unwrap();
    let doc = Document::new_curated(src, &parser);
    let mut cur = 0;
    for t in doc.get_tokens() {
        if t.span.start < t.span.end {
            assert!(t.span.start >= cur, "token {:?} {}..{} overlaps the previous token ending at {}", t.kind, t.span.start, t.span.end, cur);
            cur = t.span.end;
        }
    }
    assert!(doc.get_tokens().iter().any(|t| matches!(t.kind, TokenKind::Word(_)) && t.span.start == 39));
}
