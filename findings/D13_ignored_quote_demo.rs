//! Demonstration for finding D13 (property C14): an ignored lint next to a quotation mark comes back
//! when an unrelated paragraph is inserted earlier in the document.
use harper_core::linting::{LintGroup, Linter};
use harper_core::{Dialect, Document, FstDictionary, IgnoredLints};

#[test]
fn ignored_lint_next_to_a_quote_survives_an_edit_elsewhere() {
    let text = "Back in the days before laptops we had \"luggables\".";
    let mut group = LintGroup::new_curated(FstDictionary::curated(), Dialect::American);

    let doc = Document::new_plain_english_curated(text);
    let lints = group.lint(&doc);
    let spelling = lints.iter().find(|l| l.span.get_content_string(doc.get_source()) == "luggables").expect("luggables is flagged");

    let mut ignored = IgnoredLints::new();
    ignored.ignore_lint(spelling, &doc);

    // the user now adds a paragraph at the top of the file; nothing near the flagged word changes
    let edited = format!("An unrelated opening paragraph.\n\n{text}");
    let doc2 = Document::new_plain_english_curated(&edited);
    let mut lints2 = group.lint(&doc2);
    ignored.remove_ignored(&mut lints2, &doc2);

    assert!(
        lints2.iter().all(|l| l.span.get_content_string(doc2.get_source()) != "luggables"),
        "the ignored lint is reported again: {lints2:?}"
    );
}
