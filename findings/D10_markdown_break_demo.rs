// Demonstration of defect D10: the Markdown front-end placed the zero-width ParagraphBreak of an ending paragraph /
// item / heading / cell at the START of the element's last inline event instead of at the element's end, so the
// break could precede tokens emitted before it. A sentence that ends with such a break then has end < start:
// LongSentences built Span::new(1, 0) and panicked ("Hi. " + 41 words + "\n").
// Drop into harper-core/tests/ and run `cargo test -p harper-core --test D10_markdown_break_demo`.
use harper_core::linting::{LintGroup, Linter};
use harper_core::{Dialect, Document, FstDictionary};

fn words(n: usize) -> String { std::iter::repeat("a").take(n).collect::<Vec<_>>().join(" ") }

#[test]
fn long_unterminated_second_sentence_before_a_paragraph_break() {
    let text = format!("Hi. {}\n", words(41));
    let dict = FstDictionary::curated();
    let doc = Document::new_markdown_default(&text, &dict);
    LintGroup::new_curated(dict, Dialect::American).lint(&doc);
}
#[test]
fn covering_tokens_and_breaks_are_in_order() {
    for text in [format!("Hi. {}\n", words(5)), "One. Two\n\nThree. Four\n".to_string(), "- a. b\n- c. d\n".to_string(), "# H. x\n\nBody. y\n".to_string()] {
        let doc = Document::new_markdown_default_curated(&text);
        let mut cur = 0;
        for t in doc.get_tokens() {
            assert!(t.span.start >= cur, "token {:?} at {}..{} precedes position {} in {:?}", t.kind, t.span.start, t.span.end, cur, text);
            cur = t.span.end.max(cur);
        }
    }
}
