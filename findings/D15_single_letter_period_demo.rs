//! Demonstration for finding D15 (property C06): a one-letter dictionary word at the end of a sentence is merged
//! with the full stop into a pseudo-initialism ("I.", "B.") and reported as a spelling error.
use harper_core::linting::{LintGroup, Linter};
use harper_core::{Dialect, Document, FstDictionary};

fn spelling_lints(text: &str) -> Vec<String> {
    let doc = Document::new_plain_english_curated(text);
    let mut group = LintGroup::new_curated(FstDictionary::curated(), Dialect::American);
    group
        .lint(&doc)
        .iter()
        .filter(|l| l.lint_kind == harper_core::linting::LintKind::Spelling)
        .map(|l| l.span.get_content_string(doc.get_source()))
        .collect()
}

#[test]
fn one_letter_word_before_a_full_stop_is_not_misspelt() {
    assert_eq!(spelling_lints("So do I. Then we left."), Vec::<String>::new());
    assert_eq!(spelling_lints("So do I."), Vec::<String>::new());
    assert_eq!(spelling_lints("We chose plan B. It worked."), Vec::<String>::new());
}

#[test]
fn real_initialisms_are_still_condensed() {
    for text in ["That is all, i.e. nothing.", "See e.g.", "The N.S.A. said so."] {
        let doc = Document::new_plain_english_curated(text);
        assert!(
            doc.get_tokens().iter().any(|t| {
                let s = t.span.get_content_string(doc.get_source());
                s == "i.e." || s == "e.g." || s == "N.S.A."
            }),
            "{text}"
        );
    }
}
