// Demonstration of defect D7: `lex_long_decade` claimed the first five characters of "1980st" as the decade
// "1980s", leaving a stray word "t"; no number token with a suffix existed, so the number-suffix rule was
// silent on the wrong ordinals 1000st, 1990st, 2000st (C17), and "1980stuff" lexed as decade + "tuff".
// Drop into harper-core/tests/ and run `cargo test -p harper-core --test D7_decade_demo`.
use harper_core::linting::{CorrectNumberSuffix, Linter};
use harper_core::{Document, TokenKind};

fn lints(text: &str) -> usize {
    CorrectNumberSuffix.lint(&Document::new_plain_english_curated(text)).len()
}
#[test]
fn wrong_suffix_on_round_years_is_reported() {
    for n in ["1000", "1990", "2000", "2020"] {
        assert_eq!(lints(&format!("the {}st time", n)), 1, "{}st", n);
        assert_eq!(lints(&format!("the {}th time", n)), 0, "{}th", n);
    }
}
#[test]
fn decades_are_still_decades() {
    for text in ["the 1980s were loud", "in the 2020s.", "1990s"] {
        let doc = Document::new_plain_english_curated(text);
        assert!(doc.get_tokens().iter().any(|t| matches!(t.kind, TokenKind::Decade)), "{}", text);
    }
}
