// Demonstration of defect D8: the Go comment parser skips a `//go:` directive by adding the index of the first
// line break to the start of the comment body; when nothing (or only comment characters) follows, start > end and
// `Span::try_get_content` underflows in `len()` - a panic in builds with overflow checks (all test builds).
// Drop into harper-comments/tests/ and run `cargo test -p harper-comments --test D8_go_directive_demo`.
use harper_comments::CommentParser;
use harper_core::Document;
use harper_core::parsers::MarkdownOptions;

fn parse(src: &str) -> usize {
    let parser = CommentParser::new_from_language_id("go", MarkdownOptions::default()).unwrap();
    Document::new_curated(src, &parser).get_tokens().len()
}
#[test]
fn directive_followed_by_empty_comment() { parse("//go:build x\n//\n"); }
#[test]
fn directive_followed_by_prose() { parse("//go:generate stringer\n// These are words.\n"); }
#[test]
fn every_prefix_while_typing() {
    let full = "//go:build linux\n//\n// Package x does things.\npackage x\n";
    for i in 0..=full.len() { if full.is_char_boundary(i) { parse(&full[..i]); } }
}
