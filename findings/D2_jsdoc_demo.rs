// Demonstration of defect D2 (fixed by the /repo commit "fix: stop scanning for the end of an inline
// JSDoc tag at the end of the line"). Drop into harper-comments/tests/ and run
// `cargo test -p harper-comments --test D2_jsdoc_demo`. Before the fix the parser thread never returns
// (parse_inline_tag spins on `tokens.get(cursor) == None`); the test gives it 10 s.
use harper_comments::CommentParser;
use harper_core::Document;
use harper_core::parsers::MarkdownOptions;
use std::sync::mpsc;
use std::time::Duration;

fn parses_within(source: &'static str, secs: u64) -> bool {
    let (tx, rx) = mpsc::channel();
    std::thread::spawn(move || {
        let parser = CommentParser::new_from_language_id("javascript", MarkdownOptions::default()).unwrap();
        let doc = Document::new_curated(source, &parser);
        let _ = tx.send(doc.get_tokens().len());
    });
    rx.recv_timeout(Duration::from_secs(secs)).is_ok()
}

#[test]
fn d2_unterminated_inline_link() {
    assert!(parses_within("/** See {@link MyClass for details */", 10));
}
#[test]
fn d2_typing_prefixes() {
    // every prefix of a well-formed comment, as produced while typing
    let full = "// See {@link MyClass} and {@link Other#foo}.";
    for i in 0..=full.len() {
        if full.is_char_boundary(i) {
            let s: &'static str = Box::leak(full[..i].to_string().into_boxed_str());
            assert!(parses_within(s, 10), "hangs on prefix {:?}", s);
        }
    }
}
