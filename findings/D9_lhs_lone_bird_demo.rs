// Demonstration of defect D9: a Literate Haskell line consisting of a lone ">" that is treated as text (it does not
// follow a blank line) made the masker build Span::new(loc + 2, loc + 1), which panics.
// Drop into harper-literate-haskell/tests/ and run `cargo test -p harper-literate-haskell --test D9_lhs_lone_bird_demo`.
use harper_core::Document;
use harper_core::parsers::MarkdownOptions;
use harper_literate_haskell::LiterateHaskellParser;

fn parse(src: &str) -> usize {
    let parser = LiterateHaskellParser::new_markdown(MarkdownOptions::default());
    Document::new_curated(src, &parser).get_tokens().len()
}
#[test]
fn lone_bird_track() { parse(">\n"); }
#[test]
fn lone_bird_track_inside_prose() { parse("Some words here.\n>\nMore words.\n"); }
#[test]
fn typing_a_bird_line() {
    let full = "Intro text.\n> x = 1\n";
    for i in 0..=full.len() { parse(&full[..i]); }
}
