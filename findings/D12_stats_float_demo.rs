//! Demonstration for finding D12 (property C19): a statistics record whose context holds a Number token
//! with a 17-significant-digit value is not read back equal.
use harper_core::linting::{LintGroup, Linter};
use harper_core::{Dialect, Document, FstDictionary};
use harper_stats::{Record, RecordKind, Stats};

#[test]
fn stats_log_reads_back_a_number_token() {
    // the mantissa of f64::MAX, as written in countless API docs
    let text = "The largest finite value is 1.7976931348623157 times ten to the power of 308 and this sentence then goes on and on and on and on and on and on and on and on and on and on and on and on and on and on and on and on and on and on until it is long.";
    let doc = Document::new_plain_english_curated(text);
    let mut linter = LintGroup::new_curated(FstDictionary::curated(), Dialect::American);
    let lints = linter.lint(&doc);
    assert!(!lints.is_empty());
    let stats = Stats { records: lints.iter().map(|l| Record::now(RecordKind::from_lint(l, &doc))).collect() };
    let mut log = Vec::new();
    stats.write(&mut log).unwrap();
    let back = Stats::read(&mut log.as_slice()).unwrap();
    assert_eq!(back, stats);
}
