import argparse, json, os, sys, time
from . import driver


def main(argv):
    ap = argparse.ArgumentParser()
    ap.add_argument('pid', nargs='?')
    ap.add_argument('--tier', default=os.environ.get('VERIF_TIER') or 'quick')
    ap.add_argument('--replay')
    a = ap.parse_args(argv)
    if a.replay:
        from . import replay
        return replay.replay_file(a.replay)
    from contracts.props import PROPS
    if a.pid not in PROPS:
        print(f'property {a.pid} is not claimed (see MANIFEST.json not_applicable)', file=sys.stderr)
        return 2
    tier = a.tier if a.tier in ('quick', 'thorough') else 'quick'
    seed = int(os.environ.get('VERIF_SEED') or 0)
    spec = PROPS[a.pid]
    t0 = time.time()
    out = driver.Outcome(a.pid)
    driver.run_verus_units(a.pid, spec.get('verus', []), out, tier)
    if out.undecided_units:
        from . import racrun
        racrun.fallback_for_undecided_units(a.pid, out.undecided_units, out)
    harnesses = spec.get('kani_quick', []) if tier == 'quick' else spec.get('kani_thorough', spec.get('kani_quick', []))
    if harnesses:
        from . import kanirun
        kanirun.run_harnesses(a.pid, harnesses, out, tier)
    rac = spec.get('rac')
    if rac:
        from . import racrun
        racrun.run_bounded_rac(a.pid, rac, out, tier)
    if out.violations:
        from . import replay
        # one violation (and one replay file) per failed obligation; further messages of the same obligation are attached
        merged = {}
        for v in out.violations:
            if v['obligation'] in merged:
                merged[v['obligation']].setdefault('more', []).append({'message': v['message'], 'spans': v.get('spans')})
            else:
                merged[v['obligation']] = v
        out.violations = list(merged.values())
        cache = {}
        for v in out.violations:
            found = None
            try:
                key = (v.get('unit'), v.get('function'))
                if key not in cache:
                    cache[key] = replay.search_counterexample(a.pid, v)
                found = cache[key]
            except Exception as e:  # the search is best-effort; never masks the violation
                v['replay_search_error'] = repr(e)
            if v.get('hint_only') and not found:
                out.undecided.append(f'{v["obligation"]}: only proof-internal facts (hints, loop invariants, lemma preconditions) fail in {v["function"]} and the runtime contract check found no failing input within its bound: undecided, not an alarm')
                v['demoted'] = True
                continue
            path = driver.write_replay(a.pid, v, found)
            v['replay'] = path
            print(f'VIOLATION property={a.pid} replay={path}' + ('' if found else ' no-failing-input-found'))
        out.violations = [v for v in out.violations if not v.get('demoted')]
    return driver.finish(a.pid, out, tier, seed, t0, spec['level'], spec)
