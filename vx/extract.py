"""vx-extract: assemble a Verus unit from items copied out of /repo plus spec-only splices.

What is copied: the item's source text, byte for byte, minus the things listed under DROPPED below.
What is added: only the syntactic forms implemented in `FnSplicer` (result naming, requires/ensures/
decreases, loop invariant/decreases/ensures, iterator naming `for x in NAME: e`, `proof { .. }`,
`let ghost ..;`, `broadcast use ..;`, closure `ensures`) and the three desugarings R1-R3.
Anything else raises ExtractError => the check exits 2 (undecided).

DROPPED: comments and doc comments; outer attributes except `#[derive(..)]` restricted to
Clone/Copy/PartialEq/Eq (Debug, Hash, Default, serde, Is, PartialOrd ... are dropped);
`crate::` / `super::` / `self::` / `harper_core::` path prefixes with the lower-case module segments after them;
`pub(crate)`/`pub(super)` -> `pub`.
"""
import hashlib
import os
import re
from dataclasses import dataclass, field
from .rustlex import RustFile, Item, ExtractError

KEEP_DERIVE = ('Clone', 'Copy', 'PartialEq', 'Eq')


@dataclass
class Piece:
    kind: str            # 'raw' | 'type' | 'fn' | 'impl-open' | 'impl-close' | 'traitdecl'
    text: str
    name: str = ''       # qualified name for fns: 'Suggestion::apply'
    origin: str = ''     # '/repo/...:line'
    sha256: str = ''
    contract: dict = field(default_factory=dict)
    desugared: list = field(default_factory=list)
    l0: int = 0
    l1: int = 0


class Edits:
    """Edits over an absolute char range [a,b) of a RustFile's text."""

    def __init__(self, rf, a, b):
        self.rf = rf; self.a = a; self.b = b
        self.ops = []   # (offset, del_len, text, order)

    def insert(self, off, text, order=0):
        self.ops.append((off, 0, text, order, len(self.ops)))

    def delete(self, off, end):
        self.ops.append((off, end - off, '', -1, len(self.ops)))

    def replace(self, off, end, text):
        self.ops.append((off, end - off, text, -1, len(self.ops)))

    def render(self):
        s = self.rf.text
        out = []
        pos = self.a
        for off, dl, text, order, seq in sorted(self.ops, key=lambda o: (o[0], 0 if o[1] == 0 else 1, o[3], o[4])):
            if off < pos:
                if dl == 0 and off >= self.a:
                    # insertion inside a deleted region: keep the insertion
                    out.append(text)
                    continue
                if off + dl <= pos:
                    continue
                raise ExtractError(f'overlapping edits at {off}')
            out.append(s[pos:off])
            out.append(text)
            pos = off + dl
        out.append(s[pos:self.b])
        return ''.join(out)


def _clean_tokens(rf, ed, lo, hi, attrs=(), inner_attrs_ok=False, keep_derive=KEEP_DERIVE):
    """Register the DROPPED edits for code-token range [lo,hi) (plus comment tokens in between)."""
    k0 = rf.code[lo]
    k1 = rf.code[hi - 1]
    for k in range(k0, k1 + 1):
        t = rf.toks[k]
        if t.kind in ('lcomment', 'bcomment', 'doc'):
            ed.delete(t.start, t.end)
    # attributes
    for (a, b) in attrs:
        txt = rf.joined(a, b)
        start = rf.ct(a).start; end = rf.ct(b - 1).end
        m = re.match(r'#\[derive\((.*)\)\]$', txt)
        if m:
            keep = [d for d in m.group(1).split(',') if d in keep_derive]
            ed.replace(start, end, ('#[derive(' + ', '.join(keep) + ')]') if keep else '')
        else:
            ed.delete(start, end)
    # attributes nested inside the item (variant / field attributes such as #[default], #[serde(..)])
    ci = lo
    while ci < hi:
        if rf.ct(ci).text == '#' and ci + 1 < hi and rf.ct(ci + 1).text == '[' and not any(a <= ci < b for a, b in attrs):
            e = rf.match(ci + 1)
            txt = rf.joined(ci, e + 1)
            if not inner_attrs_ok and not re.match(r'#\[(allow|inline|must_use)', txt):
                raise ExtractError(f'{rf.path}: attribute {txt} inside a function body is not droppable')
            ed.delete(rf.ct(ci).start, rf.ct(e).end)
            ci = e + 1
            continue
        ci += 1
    # path prefixes and visibility
    ci = lo
    while ci < hi:
        t = rf.ct(ci)
        if t.kind == 'ident' and t.text in ('crate', 'super', 'self', 'harper_core') and ci + 1 < hi and rf.ct(ci + 1).text == '::' \
                and (ci == lo or rf.ct(ci - 1).text != '::'):
            j = ci
            while j + 2 < hi and rf.ct(j).text in ('crate', 'super', 'self', 'harper_core') and rf.ct(j + 1).text == '::':
                j += 2
            while j + 2 < hi and rf.ct(j).kind == 'ident' and rf.ct(j).text[0].islower() and rf.ct(j + 1).text == '::' \
                    and rf.ct(j + 2).kind == 'ident':
                j += 2
            ed.delete(rf.ct(ci).start, rf.ct(j).start)
            ci = j
            continue
        if t.text == 'pub' and ci + 1 < hi and rf.ct(ci + 1).text == '(':
            e = rf.match(ci + 1)
            ed.delete(rf.ct(ci + 1).start, rf.ct(e).end)
            ci = e + 1
            continue
        ci += 1


LOOP_KW = ('for', 'while', 'loop')


class FnSplicer:
    def __init__(self, rf: RustFile, item: Item, spec: dict, ed: Edits):
        self.rf = rf; self.it = item; self.spec = dict(spec or {}); self.ed = ed
        self.desugared = []
        self.clauses = 0

    def splice(self):
        rf, it, spec = self.rf, self.it, self.spec
        known = {'result', 'requires', 'ensures', 'decreases', 'loops', 'proofs', 'closures', 'props', 'note',
                 'unroll_fn_array', 'opens_invariants', 'no_unwind', 'external_body', 'returns', 'mode_attr', 'assumed', 'slice_matches', 'retain', 'take_while_count', 'proved_in', 'rev_find', 'filter_map_collect', 'map_sum', 'for_each', 'opaque_bools', 'drop_lets', 'windows_position', 'fwd_find_index', 'collect_string'}
        bad = set(spec) - known
        if bad:
            raise ExtractError(f'unknown spec keys {bad}')
        # --- result naming
        params_open = None
        j = it.kwi + 1
        while j < it.hdr_end and rf.ct(j).text != '(':
            j += 1
        if j >= it.hdr_end:
            raise ExtractError('fn without parameter list')
        params_open = j
        params_close = rf.match(j)
        j = params_close + 1
        if spec.get('result'):
            if j >= it.hdr_end or rf.ct(j).text != '->':
                raise ExtractError(f'{self._where()}: result named but fn has no return type')
            k = j + 1
            while k < it.hdr_end and rf.ct(k).text != 'where':
                k += 1
            self.ed.insert(rf.ct(j + 1).start, f'({spec["result"]}: ', 1)
            self.ed.insert(rf.ct(k - 1).end, ')', 1)
        # --- signature clauses
        sig = []
        for key in ('requires', 'ensures', 'returns'):
            cl = spec.get(key)
            if cl:
                cl = [cl] if isinstance(cl, str) else list(cl)
                sig.append(f'        {key}\n' + ''.join(f'            {c},\n' for c in cl))
                self.clauses += len(cl)
        if spec.get('decreases'):
            sig.append(f'        decreases {spec["decreases"]},\n'); self.clauses += 1
        if spec.get('no_unwind'):
            sig.append('        no_unwind\n')
        if sig:
            at = rf.ct(it.hdr_end).start
            self.ed.insert(at, '\n' + ''.join(sig) + '    ', 2)
        if it.body is None:
            if spec.get('loops') or spec.get('proofs'):
                raise ExtractError('loop/proof splices on a bodiless fn')
            return
        # --- loops
        loops = self._find_loops()
        want = spec.get('loops', {})
        for n in want:
            if not (1 <= n <= len(loops)):
                raise ExtractError(f'{self._where()}: loop #{n} addressed but fn has {len(loops)} loops')
        if 'nloops' in want:
            pass
        for n, (kwci, obrace) in enumerate(loops, start=1):
            ls = want.get(n)
            if not ls:
                continue
            self._splice_loop(n, kwci, obrace, dict(ls))
        # --- fn-item array unrolling (R2)
        if spec.get('unroll_fn_array'):
            self._r2(spec['unroll_fn_array'])
        # --- slice patterns inside matches! (R6)
        if spec.get('slice_matches'):
            self._r6()
        # --- Vec::retain with a stateful closure (R9), take_while(..).count() (R7)
        if spec.get('retain'):
            self._r9(dict(spec['retain']))
        if spec.get('take_while_count'):
            self._r7(dict(spec['take_while_count']))
        if spec.get('rev_find'):
            self._r11(spec['rev_find'])
        if spec.get('fwd_find_index'):
            # 'if_present': a body that no longer contains the adapter chain is taken verbatim (no desugaring needed)
            if spec['fwd_find_index'] != 'if_present' or self._has_seq(['.', 'enumerate', '(', ')', '.', 'find', '(']):
                self._r19()
        if spec.get('collect_string'):
            self._r20()
        if spec.get('filter_map_collect'):
            self._r12(dict(spec['filter_map_collect']))
        if spec.get('map_sum'):
            self._r13(dict(spec['map_sum']))
        if spec.get('for_each'):
            self._r14(list(spec['for_each']))
        if spec.get('windows_position'):
            self._r16()
        if spec.get('opaque_bools') or spec.get('drop_lets'):
            self._a1(list(spec.get('opaque_bools', [])), list(spec.get('drop_lets', [])))
        # --- proof / ghost insertions
        for p in spec.get('proofs', []):
            self._splice_proof(p, loops)
        for c in spec.get('closures', []):
            self._splice_closure(c)

    def _where(self):
        return f'{self.rf.path}:{self.it.line()}'

    def _find_loops(self):
        rf, it = self.rf, self.it
        res = []
        ci = it.body[0] + 1
        end = it.body[1]
        while ci < end:
            t = rf.ct(ci)
            if t.kind == 'ident' and t.text in LOOP_KW and not (t.text == 'for' and rf.ct(ci + 1).text == '<'):
                j = ci + 1
                while j < end and rf.ct(j).text != '{':
                    j = rf.match(j) + 1 if rf.ct(j).text in ('(', '[') else j + 1
                if j >= end:
                    raise ExtractError(f'{self._where()}: loop without body')
                res.append((ci, j))
            ci += 1
        return res

    def _clauses(self, ls):
        out = []
        for key in ('invariant_except_break', 'invariant', 'ensures'):
            cl = ls.get(key)
            if cl:
                cl = [cl] if isinstance(cl, str) else list(cl)
                out.append(f'{key}\n' + ''.join(f'    {c},\n' for c in cl))
                self.clauses += len(cl)
        if ls.get('decreases'):
            out.append(f'decreases {ls["decreases"]},\n'); self.clauses += 1
        return ''.join(out)

    def _splice_loop(self, n, kwci, obrace, ls):
        rf = self.rf
        bad = set(ls) - {'invariant', 'invariant_except_break', 'ensures', 'decreases', 'desugar', 'iter_name', 'end_proof', 'scan_invariant', 'scan_ensures'}
        if bad:
            raise ExtractError(f'unknown loop spec keys {bad}')
        clauses = self._clauses(ls)
        cbrace = rf.match(obrace)
        if ls.get('end_proof'):
            prev = rf.ct(cbrace - 1).text
            if prev not in (';', '}', '{'):
                raise ExtractError(f'{self._where()}: loop #{n} body ends in an expression; cannot append proof block')
            self.ed.insert(rf.ct(cbrace).start, 'proof { ' + ls['end_proof'] + ' }\n', 1)
        d = ls.get('desugar')
        if d == 'R1':
            # for ( I , X ) in E . iter ( ) . enumerate ( ) {
            kw = rf.ct(kwci)
            if kw.text != 'for' or rf.ct(kwci + 1).text != '(':
                raise ExtractError(f'{self._where()}: R1 needs `for (i, x) in e.iter().enumerate()`')
            pc = rf.match(kwci + 1)
            inner = [rf.ct(k).text for k in range(kwci + 2, pc)]
            if len(inner) != 3 or inner[1] != ',' or rf.ct(pc + 1).text != 'in':
                raise ExtractError(f'{self._where()}: R1 pattern mismatch')
            I, X = inner[0], inner[2]
            tail = [rf.ct(k).text for k in range(obrace - 8, obrace)]
            if tail != ['.', 'iter', '(', ')', '.', 'enumerate', '(', ')']:
                raise ExtractError(f'{self._where()}: R1 needs `.iter().enumerate()` (found {"".join(tail)})')
            E = rf.spaced(pc + 2, obrace - 8)
            before = rf.spaced(kwci, obrace + 1)
            new_head = f'{{ let mut __k: usize = 0; while __k < {E}.len()\n{clauses}{{ let {I} = __k; let {X} = &{E}[__k]; __k += 1;'
            self.ed.replace(kw.start, rf.ct(obrace).end, new_head)
            self.ed.insert(rf.ct(cbrace).end, ' }', 1)
            self.desugared.append({'rule': 'R1', 'loop': n, 'before': before, 'after': new_head + ' .. } }'})
            return
        if d == 'R3':
            # for I in A .. B {   (with `continue` inside)
            kw = rf.ct(kwci)
            if kw.text != 'for' or rf.ct(kwci + 1).kind != 'ident' or rf.ct(kwci + 2).text != 'in':
                raise ExtractError(f'{self._where()}: R3 needs `for i in a..b`')
            I = rf.ct(kwci + 1).text
            # split on '..' at depth 0
            k = kwci + 3; dd = None
            while k < obrace:
                if rf.ct(k).text == '..':
                    dd = k; break
                k = rf.match(k) + 1 if rf.ct(k).text in ('(', '[') else k + 1
            if dd is None:
                raise ExtractError(f'{self._where()}: R3 needs a half-open range')
            A = rf.spaced(kwci + 3, dd); B = rf.spaced(dd + 1, obrace)
            before = rf.spaced(kwci, obrace + 1)
            new_head = f'{{ let mut __k: usize = {A}; let __end: usize = {B}; while __k < __end\n{clauses}{{ let {I} = __k; __k += 1;'
            self.ed.replace(kw.start, rf.ct(obrace).end, new_head)
            self.ed.insert(rf.ct(cbrace).end, ' }', 1)
            self.desugared.append({'rule': 'R3', 'loop': n, 'before': before, 'after': new_head + ' .. } }'})
            return
        if d == 'R5':
            # for PAT in EXPR { B }  =>  { let mut __it = EXPR; loop { let PAT = match __it.next() { Some(__v) => __v, None => break }; B } }
            # (the Rust reference desugaring of `for` over an Iterator; needed because this Verus rejects `continue` in `for`)
            kw = rf.ct(kwci)
            if kw.text != 'for':
                raise ExtractError(f'{self._where()}: R5 needs a for loop')
            k = kwci + 1
            while k < obrace and rf.ct(k).text != 'in':
                k = rf.match(k) + 1 if rf.ct(k).text in ('(', '[') else k + 1
            if k >= obrace:
                raise ExtractError(f'{self._where()}: R5: no `in`')
            PAT = rf.spaced(kwci + 1, k); EXPR = rf.spaced(k + 1, obrace)
            before = rf.spaced(kwci, obrace + 1)
            new_head = f'{{ let mut __it = {EXPR}; loop\n{clauses}{{ let {PAT} = match __it.next() {{ Some(__v) => __v, None => break }};'
            self.ed.replace(kw.start, rf.ct(obrace).end, new_head)
            self.ed.insert(rf.ct(cbrace).end, ' }', 1)
            self.desugared.append({'rule': 'R5', 'loop': n, 'before': before, 'after': new_head + ' .. } }'})
            return
        if d == 'R8':
            # for PAT in PLACE.iter_mut() { B } (or `for PAT in &mut PLACE`)  =>  { let mut __i = 0; while __i < PLACE.len() { let PAT = &mut PLACE[__i]; __i += 1; B } }
            # (slice::IterMut visits every index once, in order; PLACE must be a side-effect-free path: identifiers and dots only)
            kw = rf.ct(kwci)
            if kw.text != 'for':
                raise ExtractError(f'{self._where()}: R8 needs a for loop')
            k = kwci + 1
            while k < obrace and rf.ct(k).text != 'in':
                k = rf.match(k) + 1 if rf.ct(k).text in ('(', '[') else k + 1
            if k >= obrace:
                raise ExtractError(f'{self._where()}: R8: no `in`')
            PAT = rf.spaced(kwci + 1, k)
            tail = [rf.ct(x).text for x in range(obrace - 4, obrace)]
            if tail == ['.', 'iter_mut', '(', ')']:
                place_toks = [rf.ct(x) for x in range(k + 1, obrace - 4)]
            elif rf.ct(k + 1).text == '&' and rf.ct(k + 2).text == 'mut' and rf.ct(obrace - 1).text == ']':
                # `for PAT in &mut PLACE[A..B]` (A, B optional): the elements A..B of PLACE, in order. The slice expression is evaluated
                # once first (`let _ = &PLACE[A..B];`), so its bounds check stays an obligation exactly as in the original.
                lb = rf.match(obrace - 1)
                place_toks = [rf.ct(x) for x in range(k + 3, lb)]
                if not place_toks or any(not (t.kind == 'ident' or t.text == '.') for t in place_toks):
                    raise ExtractError(f'{self._where()}: R8: `{rf.spaced(k + 1, obrace)}` does not iterate over a sub-slice of a plain path')
                PLACE = ''.join(t.text for t in place_toks)
                dd = None; x = lb + 1
                while x < obrace - 1:
                    if rf.ct(x).text == '..':
                        dd = x; break
                    x = rf.match(x) + 1 if rf.ct(x).text in ('(', '[') else x + 1
                if dd is None:
                    raise ExtractError(f'{self._where()}: R8: sub-slice without a `..` range')
                A = rf.spaced(lb + 1, dd).strip() or '0'
                B = rf.spaced(dd + 1, obrace - 1).strip() or f'{PLACE}.len()'
                RANGE = rf.spaced(lb + 1, obrace - 1).strip()
                before = rf.spaced(kwci, obrace + 1)
                new_head = (f'{{ let _ = &{PLACE}[{RANGE}]; let mut __i: usize = {A}; let __end: usize = {B}; while __i < __end\n{clauses}'
                            f'{{ let {PAT} = &mut {PLACE}[__i]; __i += 1;')
                self.ed.replace(kw.start, rf.ct(obrace).end, new_head)
                self.ed.insert(rf.ct(cbrace).end, ' }', 1)
                self.desugared.append({'rule': 'R8', 'loop': n, 'before': before, 'after': new_head + ' .. } }'})
                return
            elif rf.ct(k + 1).text == '&' and rf.ct(k + 2).text == 'mut':
                # `for PAT in &mut PLACE` is `PLACE.iter_mut()` for Vec / slices (IntoIterator for &mut Vec<T>)
                place_toks = [rf.ct(x) for x in range(k + 3, obrace)]
            else:
                raise ExtractError(f'{self._where()}: R8: the loop does not iterate over `<place>.iter_mut()` or `&mut <place>`')
            if not place_toks or any(not (t.kind == 'ident' or t.text == '.') for t in place_toks):
                raise ExtractError(f'{self._where()}: R8: `{rf.spaced(k + 1, obrace)}` does not iterate over a plain path')
            PLACE = ''.join(t.text for t in place_toks)
            before = rf.spaced(kwci, obrace + 1)
            new_head = f'{{ let mut __i: usize = 0; while __i < {PLACE}.len()\n{clauses}{{ let {PAT} = &mut {PLACE}[__i]; __i += 1;'
            self.ed.replace(kw.start, rf.ct(obrace).end, new_head)
            self.ed.insert(rf.ct(cbrace).end, ' }', 1)
            self.desugared.append({'rule': 'R8', 'loop': n, 'before': before, 'after': new_head + ' .. } }'})
            return
        if d == 'R10':
            # for LABEL in E.split(|C| PRED) { BODY }   (E a plain identifier naming a slice)  =>
            # { let mut __s: usize = 0; let mut __fin: bool = false; loop { if __fin { break; } let mut __e: usize = __s;
            #     loop { if __e >= E.len() { break; } let C = &E[__e]; if PRED { break; } __e += 1; }
            #     let LABEL = &E[__s..__e]; let ghost __ls = __s; if __e >= E.len() { __fin = true; } else { __s = __e + 1; } BODY } }
            # -- the definition of slice::split: the maximal sub-slices between the elements that satisfy PRED, in order,
            # including the (possibly empty) piece after the last separator. The iterator is advanced BEFORE the body runs (as
            # Iterator::next does), so `continue`, `break` and `return` inside BODY keep their meaning. PRED and BODY are left
            # untouched; `__ls` (ghost) is the start of the current piece.
            kw = rf.ct(kwci)
            if kw.text != 'for' or rf.ct(kwci + 1).kind != 'ident' or rf.ct(kwci + 2).text != 'in':
                raise ExtractError(f'{self._where()}: R10 needs `for label in e.split(|c| ..)`')
            LABEL = rf.ct(kwci + 1).text
            k = kwci + 3
            if rf.ct(k).kind != 'ident' or [rf.ct(k + j).text for j in range(1, 5)] != ['.', 'split', '(', '|'] \
                    or rf.ct(k + 5).kind != 'ident' or rf.ct(k + 6).text != '|':
                raise ExtractError(f'{self._where()}: R10 needs `for label in e.split(|c| ..)`')
            E = rf.ct(k).text; C = rf.ct(k + 5).text
            op = k + 3; cp = rf.match(op)
            if cp + 1 != obrace:
                raise ExtractError(f'{self._where()}: R10: tokens between split(..) and the loop body')
            PRED = rf.spaced(k + 7, cp).strip()
            for j in range(obrace + 1, cbrace):
                if rf.ct(j).kind == 'lifetime':
                    raise ExtractError(f'{self._where()}: R10: labelled break/continue in the loop body')
            ls2 = dict(ls); ls2['invariant'] = [f'__s <= {E}@.len()'] + list(ls.get('invariant', []))
            ls2['ensures'] = ['__fin'] + list(ls.get('ensures', []))
            ls2['decreases'] = f'(if __fin {{ 0int }} else {{ {E}@.len() - __s + 1 }})'
            sinv = ''.join(f' {c},' for c in ls.get('scan_invariant', []))
            sens = ('ensures' + ''.join(f' {c},' for c in ls.get('scan_ensures', [])) + '\n') if ls.get('scan_ensures') else ''
            self.clauses += len(ls.get('scan_invariant', [])) + len(ls.get('scan_ensures', []))
            for k in ('scan_invariant', 'scan_ensures'):
                ls2.pop(k, None)
            clauses = self._clauses(ls2)
            before = rf.spaced(kwci, obrace + 1)
            scan = (f'let mut __e: usize = __s; loop\ninvariant __s <= __e <= {E}@.len(),{sinv}\n{sens}decreases {E}@.len() - __e,\n'
                    f'{{ if __e >= {E}.len() {{ break; }} let {C} = &{E}[__e]; if {PRED} {{ break; }} __e += 1; }}')
            adv = f'let {LABEL} = &{E}[__s..__e]; let ghost __ls = __s; if __e >= {E}.len() {{ __fin = true; }} else {{ __s = __e + 1; }}'
            new_head = f'{{ let mut __s: usize = 0; let mut __fin: bool = false; loop\n{clauses}{{ if __fin {{ break; }} {scan} {adv}'
            self.ed.replace(kw.start, rf.ct(obrace).end, new_head)
            self.ed.insert(rf.ct(cbrace).end, ' }', 1)
            self.desugared.append({'rule': 'R10', 'loop': n, 'before': ' '.join(before.split()),
                                   'after': f'{{ let mut __s: usize = 0; let mut __fin: bool = false; loop {{ if __fin {{ break; }} let mut __e: usize = __s; loop {{ if __e >= {E}.len() {{ break; }} let {C} = &{E}[__e]; if {PRED} {{ break; }} __e += 1; }} {adv} .. }} }}'})
            return
        if d == 'R18':
            # for (V, T) in A.iter_mut().zip(B.iter()) { BODY }      (A, B plain identifiers)   =>
            # { let mut __z: usize = 0; while __z < A.len() && __z < B.len() { let V = &mut A[__z]; let T = &B[__z]; __z += 1; BODY } }
            # -- Zip stops at the shorter of the two; IterMut / Iter visit the elements in order. BODY is left untouched.
            kw = rf.ct(kwci)
            hdr = [rf.ct(x).text for x in range(kwci, obrace)]
            if not (len(hdr) == 21 and hdr[0:2] == ['for', '('] and hdr[3] == ',' and hdr[5:7] == [')', 'in'] and hdr[8:15] == ['.', 'iter_mut', '(', ')', '.', 'zip', '(']
                    and hdr[16:] == ['.', 'iter', '(', ')', ')']):
                raise ExtractError(f'{self._where()}: R18 needs `for (v, t) in a.iter_mut().zip(b.iter())` (found `{" ".join(hdr)}`)')
            V, T, A, B = hdr[2], hdr[4], hdr[7], hdr[15]
            ls2 = dict(ls); ls2['invariant'] = [f'__z <= {A}@.len()', f'__z <= {B}@.len()'] + list(ls.get('invariant', []))
            ls2['decreases'] = f'{A}@.len() - __z'
            clauses = self._clauses(ls2)
            before = rf.spaced(kwci, obrace + 1)
            new_head = f'{{ let mut __z: usize = 0; while __z < {A}.len() && __z < {B}.len()\n{clauses}{{ let {V} = &mut {A}[__z]; let {T} = &{B}[__z]; __z += 1;'
            self.ed.replace(kw.start, rf.ct(obrace).end, new_head)
            self.ed.insert(rf.ct(cbrace).end, ' }', 1)
            self.desugared.append({'rule': 'R18', 'loop': n, 'before': ' '.join(before.split()), 'after': ' '.join(new_head.replace(clauses, '').split()) + ' .. } }'})
            return
        if d == 'R17':
            # let mut IT = E.iter().peekable();
            # while let (Some(A), B) = (IT.next(), IT.peek()) { BODY }          (E a plain identifier naming a slice)   =>
            # { let mut __p: usize = 0; loop { if __p >= E.len() { break; } let A = &E[__p]; __p += 1;
            #     let __nx = if __p < E.len() { &E[__p] } else { A }; let B = if __p < E.len() { Some(&__nx) } else { None }; BODY } }
            # -- Peekable over slice::Iter: next() yields the elements in order, peek() right after it looks at the following element
            # (a `&&T`) without consuming it, None at the end. BODY is left untouched. IT must not be used anywhere else.
            kw = rf.ct(kwci)
            hdr = [rf.ct(x).text for x in range(kwci, obrace)]
            if len(hdr) != 24 or hdr[:5] != ['while', 'let', '(', 'Some', '('] or hdr[6:8] != [')', ','] or hdr[9:12] != [')', '=', '('] \
                    or hdr[13:18] != ['.', 'next', '(', ')', ','] or hdr[19:] != ['.', 'peek', '(', ')', ')'] or hdr[12] != hdr[18]:
                raise ExtractError(f'{self._where()}: R17 needs `while let (Some(a), b) = (it.next(), it.peek())`')
            A, B, IT = hdr[5], hdr[8], hdr[12]
            # the statement that creates the iterator, immediately before the loop
            pre = [rf.ct(x).text for x in range(kwci - 14, kwci)]
            if len(pre) != 14 or pre[:3] != ['let', 'mut', IT] or pre[3] != '=' or rf.ct(kwci - 10).kind != 'ident' or pre[5:] != ['.', 'iter', '(', ')', '.', 'peekable', '(', ')', ';']:
                raise ExtractError(f'{self._where()}: R17 needs `let mut {IT} = e.iter().peekable();` right before the loop')
            E = pre[4]
            for x in range(self.it.body[0] + 1, self.it.body[1]):
                if rf.ct(x).kind == 'ident' and rf.ct(x).text == IT and not (kwci - 14 <= x < obrace):
                    raise ExtractError(f'{self._where()}: R17: `{IT}` is used outside the loop header')
            ls2 = dict(ls); ls2['invariant'] = [f'__p <= {E}@.len()'] + list(ls.get('invariant', []))
            ls2['ensures'] = [f'__p >= {E}@.len()'] + list(ls.get('ensures', []))
            ls2['decreases'] = f'{E}@.len() - __p'
            clauses = self._clauses(ls2)
            before = rf.spaced(kwci - 14, obrace + 1)
            new_head = (f'{{ let mut __p: usize = 0; loop\n{clauses}{{ if __p >= {E}.len() {{ break; }} let {A} = &{E}[__p]; __p += 1; '
                        f'let __nx = if __p < {E}.len() {{ &{E}[__p] }} else {{ {A} }}; let {B} = if __p < {E}.len() {{ Some(&__nx) }} else {{ None }};')
            self.ed.replace(rf.ct(kwci - 14).start, rf.ct(obrace).end, new_head)
            self.ed.insert(rf.ct(cbrace).end, ' }', 1)
            self.desugared.append({'rule': 'R17', 'loop': n, 'before': ' '.join(before.split()), 'after': ' '.join(new_head.replace(clauses, '').split()) + ' .. } }'})
            return
        if d:
            raise ExtractError(f'unknown desugaring {d}')
        if ls.get('iter_name'):
            kw = rf.ct(kwci)
            if kw.text != 'for':
                raise ExtractError('iter_name on a non-for loop')
            k = kwci + 1
            while k < obrace and rf.ct(k).text != 'in':
                k = rf.match(k) + 1 if rf.ct(k).text in ('(', '[') else k + 1
            self.ed.insert(rf.ct(k + 1).start, f'{ls["iter_name"]}: ', 1)
        if clauses:
            self.ed.insert(rf.ct(obrace).start, '\n' + clauses, 1)

    def _r2(self, cfg):
        """R2: `let L = [f1, .., fn]; for x in L { if let Some(v) = x(A) { return Some(v); } }` => unrolled chain."""
        rf, it = self.rf, self.it
        name = cfg['array']
        ci = it.body[0] + 1; end = it.body[1]
        while ci < end:
            if rf.ct(ci).text == 'let' and rf.ct(ci + 1).text == name and rf.ct(ci + 2).text == '=' and rf.ct(ci + 3).text == '[':
                break
            ci += 1
        else:
            raise ExtractError(f'{self._where()}: R2 array `{name}` not found')
        ab = ci + 3; ae = rf.match(ab)
        fns = []
        k = ab + 1
        while k < ae:
            if rf.ct(k).kind != 'ident' or rf.ct(k + 1).text not in (',', ']'):
                raise ExtractError(f'{self._where()}: R2 array elements must be plain fn names')
            fns.append(rf.ct(k).text)
            k += 2 if rf.ct(k + 1).text == ',' else 1
        if rf.ct(ae + 1).text != ';':
            raise ExtractError('R2: expected ; after array')
        f = ae + 2
        exp = ['for', None, 'in', name, '{', 'if', 'let', 'Some', '(', None, ')', '=', None, '(', None, ')', '{', 'return', 'Some', '(', None, ')', ';', '}', '}']
        got = [rf.ct(f + i).text for i in range(len(exp))]
        for e, g in zip(exp, got):
            if e is not None and e != g:
                raise ExtractError(f'{self._where()}: R2 loop shape mismatch at `{g}` (want `{e}`)')
        x, v, x2, arg, v2 = got[1], got[9], got[12], got[14], got[20]
        if x != x2 or v != v2:
            raise ExtractError('R2: variable mismatch')
        before = rf.spaced(ci, f + len(exp))
        chain = '\n'.join(f'        if let Some({v}) = {fn}({arg}) {{ return Some({v}); }}' for fn in fns)
        self.ed.replace(rf.ct(ci).start, rf.ct(f + len(exp) - 1).end, chain)
        self.desugared.append({'rule': 'R2', 'before': before, 'after': chain})

    def _r6(self):
        """R6: `matches!(E, [P0, .., Pk-1, ..])` (a slice pattern with a trailing rest and no bindings) =>
        `(E.len() >= k && matches!(E[0], P0) && .. && matches!(E[k-1], Pk-1))`. E must be a plain identifier.
        This Verus rejects slice patterns; the rewrite is the definition of slice-pattern matching."""
        rf, it = self.rf, self.it
        ci = it.body[0] + 1; end = it.body[1]; found = 0
        while ci < end:
            if rf.ct(ci).text == 'matches' and rf.ct(ci + 1).text == '!' and rf.ct(ci + 2).text == '(':
                close = rf.match(ci + 2)
                k = ci + 3
                if rf.ct(k).kind == 'ident' and rf.ct(k + 1).text == ',' and rf.ct(k + 2).text == '[':
                    E = rf.ct(k).text
                    lb = k + 2; rb = rf.match(lb)
                    # optional trailing comma before ')'
                    if not (rb + 1 == close or (rf.ct(rb + 1).text == ',' and rb + 2 == close)):
                        ci += 1; continue
                    # split top-level patterns
                    pats = []; cur = lb + 1; j = lb + 1
                    while j < rb:
                        t = rf.ct(j).text
                        if t in ('(', '[', '{'):
                            j = rf.match(j) + 1; continue
                        if t == ',':
                            pats.append((cur, j)); cur = j + 1
                        j += 1
                    if cur < rb:
                        pats.append((cur, rb))
                    texts = [rf.spaced(a, b).strip() for a, b in pats]
                    if not texts or texts[-1] != '..' or any(p == '..' for p in texts[:-1]):
                        raise ExtractError(f'{self._where()}: R6 handles only slice patterns of the form [P0, .., Pk-1, ..]')
                    for p in texts[:-1]:
                        if re.search(r'\b(ref|mut)\b|@', p) or re.fullmatch(r'[a-z_][a-z0-9_]*', p):
                            raise ExtractError(f'{self._where()}: R6: pattern `{p}` binds a variable')
                    n = len(texts) - 1
                    parts = [f'{E}.len() >= {n}'] + [f'matches!({E}[{i}], {p})' for i, p in enumerate(texts[:-1])]
                    before = rf.spaced(ci, close + 1)
                    after = '(' + ' && '.join(parts) + ')'
                    self.ed.replace(rf.ct(ci).start, rf.ct(close).end, after)
                    self.desugared.append({'rule': 'R6', 'before': ' '.join(before.split()), 'after': ' '.join(after.split())})
                    found += 1
                    ci = close + 1
                    continue
            ci += 1
        if not found:
            raise ExtractError(f'{self._where()}: R6 requested but no `matches!(x, [.., ..])` found')

    def _r9(self, cfg):
        """R9: `self.retain(|P| { BODY });`  =>
        `{ let mut __flags: Vec<bool> = Vec::new(); let mut __r: usize = 0;
           while __r < self.len() { [let P = &self[__r];] let __b: bool = { BODY }; __flags.push(__b); __r += 1; }
           vec_retain_flags(self, &__flags); }`
        i.e. the documented behaviour of Vec::retain ("visits each element exactly once in the original order, and
        preserves the order of the retained elements"): the closure body runs once per element, in order, with its
        captured state updated in place, and afterwards exactly the elements whose call returned true remain
        (`vec_retain_flags`, a trusted std stand-in). BODY is left untouched."""
        rf, it = self.rf, self.it
        bad = set(cfg) - {'invariant', 'decreases', 'end_proof', 'after_proof'}
        if bad:
            raise ExtractError(f'unknown retain spec keys {bad}')
        ci = it.body[0] + 1; end = it.body[1]; hits = []
        while ci < end:
            if [rf.ct(ci + k).text for k in range(4)] == ['self', '.', 'retain', '('] and rf.ct(ci - 1).text in (';', '{', '}'):
                hits.append(ci)
            ci += 1
        if len(hits) != 1:
            raise ExtractError(f'{self._where()}: R9 needs exactly one statement `self.retain(..)` (found {len(hits)})')
        ci = hits[0]
        op = ci + 3; cp = rf.match(op)
        if rf.ct(cp + 1).text != ';':
            raise ExtractError(f'{self._where()}: R9: `self.retain(..)` is not a statement')
        if rf.ct(op + 1).text != '|' or rf.ct(op + 3).text != '|' or rf.ct(op + 2).kind != 'ident' or rf.ct(op + 4).text != '{':
            raise ExtractError(f'{self._where()}: R9 needs a closure `|x| {{ .. }}` with one plain parameter and a block body')
        P = rf.ct(op + 2).text
        ob = op + 4; cb = rf.match(ob)
        if cb + 1 != cp:
            raise ExtractError(f'{self._where()}: R9: closure body is not the whole argument')
        clauses = self._clauses(cfg)
        bind = '' if P == '_' else f'let {P} = &self[__r]; '
        before = rf.spaced(ci, ob + 1)
        head = ('{ let mut __flags: Vec<bool> = Vec::new(); let mut __r: usize = 0; while __r < self.len()\n'
                + clauses + '{ ' + bind + 'let __b: bool = {')
        self.ed.replace(rf.ct(ci).start, rf.ct(ob).end, head)
        endp = ('proof { ' + cfg['end_proof'] + ' }\n') if cfg.get('end_proof') else ''
        aftp = ('proof { ' + cfg['after_proof'] + ' }\n') if cfg.get('after_proof') else ''
        tail = ';\n' + endp + '__flags.push(__b); __r += 1; }\n' + aftp + 'vec_retain_flags(self, &__flags); }'
        self.ed.replace(rf.ct(cp).start, rf.ct(cp + 1).end, tail)
        self.desugared.append({'rule': 'R9', 'before': ' '.join(before.split()) + ' BODY });',
                               'after': ' '.join(head.split()) + ' BODY }; __flags.push(__b); __r += 1; } vec_retain_flags(self, &__flags); }'})

    def _r7(self, cfg):
        """R7: `E.iter().take_while(|C| PRED).count()` (E a plain identifier naming a slice)  =>
        `{ let mut __n: usize = 0; loop { if __n >= E.len() { break; } let C = &&E[__n]; if !(PRED) { break; } __n += 1; } __n }`
        -- the definition of take_while + count on slice::Iter: the number of leading elements for which PRED holds
        (the closure parameter of take_while over slice::Iter<T> is a `&&T`). PRED is left untouched."""
        rf, it = self.rf, self.it
        bad = set(cfg) - {'invariant', 'decreases'}
        if bad:
            raise ExtractError(f'unknown take_while_count spec keys {bad}')
        ci = it.body[0] + 1; end = it.body[1]; found = 0
        while ci < end:
            if rf.ct(ci).kind == 'ident' and [rf.ct(ci + k).text for k in range(1, 9)] == ['.', 'iter', '(', ')', '.', 'take_while', '(', '|'] \
                    and rf.ct(ci - 1).text != '.':
                E = rf.ct(ci).text
                op = ci + 7; cp = rf.match(op)
                if rf.ct(op + 2).kind != 'ident' or rf.ct(op + 3).text != '|':
                    raise ExtractError(f'{self._where()}: R7 needs a closure with one plain parameter')
                C = rf.ct(op + 2).text
                if [rf.ct(cp + k).text for k in range(1, 5)] != ['.', 'count', '(', ')']:
                    raise ExtractError(f'{self._where()}: R7 needs `.take_while(..).count()`')
                PRED = rf.spaced(op + 4, cp).strip()
                inv = list(cfg.get('invariant', []))
                cl = ('invariant\n    __n <= ' + E + '@.len(),\n' + ''.join(f'    {c.replace("{E}", E)},\n' for c in inv)
                      + f'decreases {E}@.len() - __n,\n')
                self.clauses += len(inv) + 2
                before = rf.spaced(ci, cp + 5)
                after = (f'{{ let mut __n: usize = 0; loop\n{cl}{{ if __n >= {E}.len() {{ break; }} let {C} = &&{E}[__n]; '
                         f'if !({PRED}) {{ break; }} __n += 1; }} __n }}')
                self.ed.replace(rf.ct(ci).start, rf.ct(cp + 4).end, after)
                self.desugared.append({'rule': 'R7', 'before': ' '.join(before.split()), 'after': ' '.join(re.sub(r'invariant.*?decreases[^,]*,', '', after, flags=re.S).split())})
                found += 1
                ci = cp + 5
                continue
            ci += 1
        if found != 1:
            raise ExtractError(f'{self._where()}: R7 needs exactly one `x.iter().take_while(|c| ..).count()` (found {found})')

    def _r11(self, cfg):
        """R11: `E.iter().enumerate().rev().find(|(I, C)| PRED)` (E a plain identifier naming a slice; I, C identifiers or `_`) =>
        `{ let mut __j: usize = E.len(); let mut __hit = None; loop { if __j == 0 { break; } __j -= 1; let I = &__j; let C = &&E[__j];
           if PRED { __hit = Some((__j, &E[__j])); break; } } __hit }`
        -- the definition of enumerate + rev + find on slice::Iter (an ExactSizeIterator): the last (index, element) pair
        whose element satisfies PRED (the closure parameter is a `&(usize, &T)`). PRED is left untouched."""
        rf, it = self.rf, self.it
        ci = it.body[0] + 1; end = it.body[1]; found = 0
        want = ['.', 'iter', '(', ')', '.', 'enumerate', '(', ')', '.', 'rev', '(', ')', '.', 'find', '(', '|', '(']
        while ci < end:
            if rf.ct(ci).kind == 'ident' and rf.ct(ci - 1).text != '.' and [rf.ct(ci + k).text for k in range(1, len(want) + 1)] == want:
                E = rf.ct(ci).text
                op = ci + 15; cp = rf.match(op)
                tp = ci + 17; tc = rf.match(tp)
                inner = [rf.ct(k).text for k in range(tp + 1, tc)]
                if len(inner) != 3 or inner[1] != ',' or rf.ct(tc + 1).text != '|':
                    raise ExtractError(f'{self._where()}: R11 needs a closure `|(i, c)| ..`')
                I, C = inner[0], inner[2]
                PRED = rf.spaced(tc + 2, cp).strip()
                bi = '' if I == '_' else f'let {I} = &__j; '
                bc = '' if C == '_' else f'let {C} = &&{E}[__j]; '
                before = rf.spaced(ci, cp + 1)
                cl = f'invariant __j <= {E}@.len(), __hit matches Some(__h) ==> __h.0 < {E}@.len(),\ndecreases __j,\n'
                after = (f'{{ let mut __j: usize = {E}.len(); let mut __hit: Option<(usize, &{cfg["elem"]})> = None; loop\n{cl}{{ if __j == 0 {{ break; }} __j -= 1; {bi}{bc}'
                         f'if {PRED} {{ __hit = Some((__j, &{E}[__j])); break; }} }} __hit }}')
                self.clauses += 3
                self.ed.replace(rf.ct(ci).start, rf.ct(cp).end, after)
                self.desugared.append({'rule': 'R11', 'before': ' '.join(before.split()), 'after': ' '.join(after.replace(cl, '').split())})
                found += 1
                ci = cp + 1
                continue
            ci += 1
        if found != 1:
            raise ExtractError(f'{self._where()}: R11 needs exactly one `x.iter().enumerate().rev().find(|(i, c)| ..)` (found {found})')

    def _has_seq(self, toks):
        rf, it = self.rf, self.it
        for ci in range(it.body[0] + 1, it.body[1] - len(toks)):
            if [rf.ct(ci + k).text for k in range(len(toks))] == toks:
                return True
        return False

    def _r19(self):
        """R19: `E.iter().enumerate().find(|(_, C)| PRED).map(|(I, _)| I)` (E a place expression naming a slice: an identifier followed by
        index / range-index / field projections) =>
        `{ let __sl = &E; let mut __j: usize = 0; let mut __hit: Option<usize> = None; loop { if __j >= __sl.len() { break; } let C = &&__sl[__j];
           if PRED { __hit = Some(__j); break; } __j += 1; } __hit }`
        -- the definition of enumerate + find + map-to-the-index on slice::Iter: the index of the first element that satisfies PRED
        (the closure parameter of `find` is a `&(usize, &T)`, so C is a `&&T`). E is evaluated once, first (its slicing bounds check stays
        an obligation); PRED is left untouched."""
        rf, it = self.rf, self.it
        ci = it.body[0] + 1; end = it.body[1]; found = 0
        want = ['.', 'iter', '(', ')', '.', 'enumerate', '(', ')', '.', 'find', '(', '|', '(']
        while ci < end:
            if rf.ct(ci).text == '.' and [rf.ct(ci + k).text for k in range(0, len(want))] == want and (rf.ct(ci - 1).kind == 'ident' or rf.ct(ci - 1).text == ']'):
                # walk back over the place expression
                st = ci - 1
                while True:
                    if rf.ct(st).text == ']':
                        st = rf.match(st) - 1
                        continue
                    if rf.ct(st).kind == 'ident' and rf.ct(st - 1).text == '.' and (rf.ct(st - 2).kind == 'ident' or rf.ct(st - 2).text == ']'):
                        st -= 2
                        continue
                    break
                if rf.ct(st).kind != 'ident' or rf.ct(st - 1).text == '.':
                    raise ExtractError(f'{self._where()}: R19: the receiver of `.iter().enumerate().find(..)` is not a place expression')
                E = rf.spaced(st, ci).strip()
                op = ci + 10; cp = rf.match(op)
                tp = ci + 12; tc = rf.match(tp)
                inner = [rf.ct(k).text for k in range(tp + 1, tc)]
                if len(inner) != 3 or inner[0] != '_' or inner[1] != ',' or rf.ct(tc + 1).text != '|':
                    raise ExtractError(f'{self._where()}: R19 needs a closure `|(_, c)| ..`')
                C = inner[2]
                PRED = rf.spaced(tc + 2, cp).strip()
                # the `.map(|(i, _)| i)` that follows
                tail = [rf.ct(cp + k).text for k in range(1, 14)]
                if tail[:6] != ['.', 'map', '(', '|', '(', tail[5]] or tail[6:12] != [',', '_', ')', '|', tail[5], ')'] or rf.ct(cp + 6).kind != 'ident':
                    raise ExtractError(f'{self._where()}: R19 needs `.map(|(i, _)| i)` after the find (found {" ".join(tail)})')
                mp = cp + 12
                before = rf.spaced(st, mp + 1)
                cl = f'invariant_except_break __hit is None,\ninvariant __j <= __sl@.len(),\nensures __hit matches Some(__h) ==> __h < __sl@.len(),\ndecreases __sl@.len() - __j,\n'
                after = (f'{{ let __sl = &{E}; let mut __j: usize = 0; let mut __hit: Option<usize> = None; loop\n{cl}{{ if __j >= __sl.len() {{ break; }} let {C} = &&__sl[__j]; '
                         f'if {PRED} {{ __hit = Some(__j); break; }} __j += 1; }} __hit }}')
                self.clauses += 4
                self.ed.replace(rf.ct(st).start, rf.ct(mp).end, after)
                self.desugared.append({'rule': 'R19', 'before': ' '.join(before.split()), 'after': ' '.join(after.replace(cl, '').split())})
                found += 1
                ci = mp + 1
                continue
            ci += 1
        if found != 1:
            raise ExtractError(f'{self._where()}: R19 needs exactly one `x.iter().enumerate().find(|(_, c)| ..).map(|(i, _)| i)` (found {found})')

    def _r20(self):
        """R20: `let [mut] NAME: String = EXPR.iter().collect();` (EXPR a `[char]` place expression) =>
        `let [mut] NAME: String = string_of_chars(&EXPR);`
        -- `String: FromIterator<&char>` pushes every char of the slice in order; `string_of_chars` (trusted, body `e.iter().collect()`)
        carries that as `s@ == e@`. EXPR is left untouched (its slicing bounds check stays an obligation)."""
        rf, it = self.rf, self.it
        ci = it.body[0] + 1; end = it.body[1]; found = 0
        while ci < end:
            if rf.ct(ci).text == 'let' and rf.ct(ci - 1).text in (';', '{', '}'):
                n = ci + 2 if rf.ct(ci + 1).text == 'mut' else ci + 1
                if rf.ct(n).kind == 'ident' and [rf.ct(n + j).text for j in (1, 2, 3)] == [':', 'String', '=']:
                    k = n + 4
                    while k < end and rf.ct(k).text != ';':
                        k = rf.match(k) + 1 if rf.ct(k).text in ('(', '[', '{') else k + 1
                    if k < end and [rf.ct(k - j).text for j in range(8, 0, -1)] == ['.', 'iter', '(', ')', '.', 'collect', '(', ')']:
                        EXPR = rf.spaced(n + 4, k - 8).strip()
                        before = rf.spaced(n + 4, k)
                        after = f'string_of_chars(&{EXPR})'
                        self.ed.replace(rf.ct(n + 4).start, rf.ct(k - 1).end, after)
                        self.desugared.append({'rule': 'R20', 'before': ' '.join(before.split()), 'after': after})
                        found += 1
                        ci = k
                        continue
            ci += 1
        if found != 1:
            raise ExtractError(f'{self._where()}: R20 needs exactly one `let x: String = e.iter().collect();` (found {found})')

    def _r12(self, cfg):
        """R12: `E.iter().enumerate().filter_map(|(I, C)| BODY).collect()` (E a plain identifier naming a slice; the target a Vec) =>
        `{ let mut __out = Vec::new(); let mut __k: usize = 0; while __k < E.len() { let I = __k; let C = &E[__k]; __k += 1;
           match (BODY) { Some(__v) => { __out.push(__v); } None => {} } } __out }`
        With `.take(N)` before `.collect()`: `let __take: usize = N;` first and `if __out.len() >= __take { break; }` at the start of
        each iteration (Take stops pulling from the inner iterator once N items have been produced).
        -- the definition of enumerate + filter_map [+ take] + collect::<Vec<_>>: BODY is evaluated once per element, in order, and
        the values it returns in `Some` are appended in that order. BODY is left untouched."""
        rf, it = self.rf, self.it
        bad = set(cfg) - {'invariant', 'decreases', 'ensures'}
        if bad:
            raise ExtractError(f'unknown filter_map_collect spec keys {bad}')
        ci = it.body[0] + 1; end = it.body[1]; found = 0
        want = ['.', 'iter', '(', ')', '.', 'enumerate', '(', ')', '.', 'filter_map', '(', '|', '(']
        while ci < end:
            if rf.ct(ci).kind == 'ident' and rf.ct(ci - 1).text != '.' and [rf.ct(ci + k).text for k in range(1, len(want) + 1)] == want:
                E = rf.ct(ci).text
                op = ci + 11; cp = rf.match(op)
                tp = ci + 13; tc = rf.match(tp)
                inner = [rf.ct(k).text for k in range(tp + 1, tc)]
                if len(inner) != 3 or inner[1] != ',' or rf.ct(tc + 1).text != '|':
                    raise ExtractError(f'{self._where()}: R12 needs a closure `|(i, c)| ..`')
                # optional `.take(N)` between filter_map(..) and collect(): Take stops pulling once N items have been produced
                take = None; q = cp
                if [rf.ct(cp + k).text for k in range(1, 4)] == ['.', 'take', '(']:
                    tcp = rf.match(cp + 3)
                    take = rf.spaced(cp + 4, tcp).strip(); q = tcp
                if [rf.ct(q + k).text for k in range(1, 5)] != ['.', 'collect', '(', ')']:
                    raise ExtractError(f'{self._where()}: R12 needs `.filter_map(..)[.take(n)].collect()` (found `{rf.spaced(q + 1, q + 5)}`)')
                I, C = inner[0], inner[2]
                BODY = rf.spaced(tc + 2, cp).strip()
                spec = {'invariant': [f'__k <= {E}@.len()'] + list(cfg.get('invariant', [])), 'decreases': f'{E}@.len() - __k'}
                if take is not None:
                    spec['invariant'].append('__out@.len() <= __take')
                    spec['ensures'] = [f'__k == {E}@.len() || __out@.len() == __take'] + list(cfg.get('ensures', []))
                clauses = self._clauses(spec)
                before = rf.spaced(ci, q + 5)
                tk0 = f'let __take: usize = {take}; ' if take is not None else ''
                tk1 = 'if __out.len() >= __take { break; } ' if take is not None else ''
                after = (f'{{ let mut __out = Vec::new(); let mut __k: usize = 0; {tk0}while __k < {E}.len()\n{clauses}{{ {tk1}let {I} = __k; let {C} = &{E}[__k]; __k += 1; '
                         f'match ({BODY}) {{ Some(__v) => {{ __out.push(__v); }} None => {{}} }} }} __out }}')
                self.ed.replace(rf.ct(ci).start, rf.ct(q + 4).end, after)
                cp = q
                self.desugared.append({'rule': 'R12', 'before': ' '.join(before.split()), 'after': ' '.join(after.replace(clauses, '').split())})
                found += 1
                ci = cp + 5
                continue
            ci += 1
        if found != 1:
            raise ExtractError(f'{self._where()}: R12 needs exactly one `x.iter().enumerate().filter_map(|(i, c)| ..).collect()` (found {found})')

    def _r13(self, cfg):
        """R13: `let NAME: TY = EXPR.iter().map(|C| F).sum();` =>
        `let NAME: TY = { let __sl = &EXPR; let mut __acc: TY = 0; let mut __j: usize = 0; while __j < __sl.len() { let C = &__sl[__j];
           __acc += F; __j += 1; } __acc };`
        -- the definition of map + sum over slice::Iter for an integer type (`+` with the overflow check of a debug build,
        which is what Iterator::sum does there). F is left untouched."""
        rf, it = self.rf, self.it
        bad = set(cfg) - {'invariant', 'decreases'}
        if bad:
            raise ExtractError(f'unknown map_sum spec keys {bad}')
        ci = it.body[0] + 1; end = it.body[1]; found = 0
        while ci < end:
            if rf.ct(ci).text == 'let' and rf.ct(ci - 1).text in (';', '{', '}') and rf.ct(ci + 1).kind == 'ident' and rf.ct(ci + 2).text == ':':
                # statement end
                k = ci
                while k < end and rf.ct(k).text != ';':
                    k = rf.match(k) + 1 if rf.ct(k).text in ('(', '[', '{') else k + 1
                if k < end and [rf.ct(k - j).text for j in range(4, 0, -1)] == ['.', 'sum', '(', ')']:
                    eq = ci + 3
                    while eq < k and rf.ct(eq).text != '=':
                        eq += 1
                    TY = rf.spaced(ci + 3, eq).strip()
                    mcp = k - 5                      # ')' closing map(..)
                    if rf.ct(mcp).text != ')':
                        raise ExtractError(f'{self._where()}: R13: expected `.map(..).sum()`')
                    mop = rf.match(mcp)
                    if [rf.ct(mop - j).text for j in range(6, 0, -1)] != ['.', 'iter', '(', ')', '.', 'map'] or rf.ct(mop + 1).text != '|' \
                            or rf.ct(mop + 2).kind != 'ident' or rf.ct(mop + 3).text != '|':
                        raise ExtractError(f'{self._where()}: R13 needs `EXPR.iter().map(|c| ..).sum()`')
                    C = rf.ct(mop + 2).text
                    F = rf.spaced(mop + 4, mcp).strip()
                    EXPR = rf.spaced(eq + 1, mop - 6).strip()
                    clauses = self._clauses({'invariant': ['__j <= __sl@.len()'] + list(cfg.get('invariant', [])), 'decreases': '__sl@.len() - __j'})
                    before = rf.spaced(eq + 1, k)
                    after = (f'{{ let __sl = &{EXPR}; let mut __acc: {TY} = 0; let mut __j: usize = 0; while __j < __sl.len()\n{clauses}'
                             f'{{ let {C} = &__sl[__j]; __acc += {F}; __j += 1; }} __acc }}')
                    self.ed.replace(rf.ct(eq + 1).start, rf.ct(k - 1).end, after)
                    self.desugared.append({'rule': 'R13', 'before': ' '.join(before.split()), 'after': ' '.join(after.replace(clauses, '').split())})
                    found += 1
                ci = k
                continue
            ci += 1
        if found != 1:
            raise ExtractError(f'{self._where()}: R13 needs exactly one `let x: T = e.iter().map(|c| ..).sum();` (found {found})')

    def _r14(self, cfgs):
        """R14: `PLACE.iter_mut().for_each(|T| BODY)` (PLACE a plain path; the n-th occurrence takes the n-th spec) =>
        `{ let mut __i: usize = 0; while __i < PLACE.len() { let T = &mut PLACE[__i]; __i += 1; BODY; } }`
        -- slice::IterMut visits every element once, in order, and for_each calls the closure on each. BODY is left untouched."""
        rf, it = self.rf, self.it
        ci = it.body[0] + 1; end = it.body[1]; found = 0
        while ci < end:
            if rf.ct(ci).kind == 'ident' and rf.ct(ci - 1).text in (';', '{', '}'):
                j = ci
                while j + 3 < end and rf.ct(j).kind == 'ident' and rf.ct(j + 1).text == '.' and rf.ct(j + 2).kind == 'ident' and rf.ct(j + 2).text != 'iter_mut':
                    j += 2
                if j + 12 < end and rf.ct(j).kind == 'ident' and [rf.ct(j + k).text for k in range(1, 9)] == ['.', 'iter_mut', '(', ')', '.', 'for_each', '(', '|'] \
                        and rf.ct(j + 9).kind == 'ident' and rf.ct(j + 10).text == '|':
                    if found >= len(cfgs):
                        raise ExtractError(f'{self._where()}: R14: more `.iter_mut().for_each(..)` statements than specs')
                    cfg = dict(cfgs[found])
                    bad = set(cfg) - {'invariant', 'decreases', 'body_proof'}
                    if bad:
                        raise ExtractError(f'unknown for_each spec keys {bad}')
                    PLACE = ''.join(rf.ct(k).text for k in range(ci, j + 1))
                    T = rf.ct(j + 9).text
                    op = j + 7; cp = rf.match(op)
                    BODY = rf.spaced(j + 11, cp).strip()
                    clauses = self._clauses({'invariant': [f'__i <= {PLACE}@.len()'] + list(cfg.get('invariant', [])), 'decreases': f'{PLACE}@.len() - __i'})
                    bp = ('proof { ' + cfg['body_proof'] + ' } ') if cfg.get('body_proof') else ''
                    before = rf.spaced(ci, cp + 1)
                    after = f'{{ let mut __i: usize = 0; while __i < {PLACE}.len()\n{clauses}{{ let {T} = &mut {PLACE}[__i]; __i += 1; {bp}{BODY}; }} }}'
                    self.ed.replace(rf.ct(ci).start, rf.ct(cp).end, after)
                    self.desugared.append({'rule': 'R14', 'before': ' '.join(before.split()),
                                           'after': f'{{ let mut __i: usize = 0; while __i < {PLACE}.len() {{ let {T} = &mut {PLACE}[__i]; __i += 1; {BODY}; }} }}'})
                    found += 1
                    ci = cp + 1
                    continue
            ci += 1
        if found != len(cfgs):
            raise ExtractError(f'{self._where()}: R14: {len(cfgs)} specs for {found} `.iter_mut().for_each(..)` statements')

    def _a1(self, exprs, lets):
        """A1 (an ABSTRACTION, not a desugaring): every occurrence of one of the listed boolean expressions is replaced by `any_bool()`
        (an external_body function without postcondition: an arbitrary bool), and the listed `let NAME = ..;` statements, whose only
        uses were inside those expressions, are dropped. Sound for panic-freedom, termination and every postcondition that is proved for
        ALL values of these tests, PROVIDED the replaced expressions themselves neither panic nor diverge (they are calls of total std
        functions on str: to_string / trim / == / is_empty / first().is_some_and(..)); what the tests decide is NOT verified.
        Each replacement is recorded under coverage.desugared with rule A1."""
        rf, it = self.rf, self.it
        lo = it.body[0] + 1; end = it.body[1]
        covered = []                       # token ranges replaced or dropped
        for ex in exprs:
            etoks = [t.text for t in RustFile('<expr>', ex).toks if t.kind not in ('ws', 'lcomment', 'bcomment', 'doc')]
            ci = lo; hits = 0
            while ci + len(etoks) <= end:
                if [rf.ct(ci + k).text for k in range(len(etoks))] == etoks and not any(a <= ci < b for a, b in covered):
                    self.ed.replace(rf.ct(ci).start, rf.ct(ci + len(etoks) - 1).end, 'any_bool()')
                    covered.append((ci, ci + len(etoks))); hits += 1
                    ci += len(etoks); continue
                ci += 1
            if not hits:
                raise ExtractError(f'{self._where()}: A1: expression `{ex}` not found')
            self.desugared.append({'rule': 'A1 (abstraction)', 'before': ex, 'after': f'any_bool()   [{hits} occurrence(s)]'})
        for name in lets:
            ci = lo; hit = None
            while ci < end:
                if rf.ct(ci).text == 'let' and rf.ct(ci + 1).text == name and rf.ct(ci - 1).text in (';', '{', '}'):
                    k = ci
                    while k < end and rf.ct(k).text != ';':
                        k = rf.match(k) + 1 if rf.ct(k).text in ('(', '[', '{') else k + 1
                    hit = (ci, k + 1); break
                ci += 1
            if hit is None:
                raise ExtractError(f'{self._where()}: A1: `let {name}` not found')
            self.ed.delete(rf.ct(hit[0]).start, rf.ct(hit[1] - 1).end)
            covered.append(hit)
            self.desugared.append({'rule': 'A1 (abstraction)', 'before': ' '.join(rf.spaced(hit[0], hit[1]).split()), 'after': '(dropped: used only inside abstracted tests)'})
        for name in lets:
            for ci in range(lo, end):
                if rf.ct(ci).kind == 'ident' and rf.ct(ci).text == name and not any(a <= ci < b for a, b in covered):
                    raise ExtractError(f'{self._where()}: A1: `{name}` is still used outside the abstracted expressions')

    def _r16(self):
        """R16: `E.iter().tuple_windows().position(|(A, B)| BODY)` (E a plain identifier naming a Vec / slice) =>
        `{ let mut __w: usize = 0; let mut __hit: Option<usize> = None; loop { if E.len() < 2 || __w >= E.len() - 1 { break; } let A = &E[__w];
           let B = &E[__w + 1]; if BODY { __hit = Some(__w); break; } __w += 1; } __hit }`
        -- itertools::tuple_windows yields the overlapping pairs (e0, e1), (e1, e2), ..; position returns the index of the first pair
        for which BODY holds. BODY is left untouched."""
        rf, it = self.rf, self.it
        ci = it.body[0] + 1; end = it.body[1]; found = 0
        want = ['.', 'iter', '(', ')', '.', 'tuple_windows', '(', ')', '.', 'position', '(', '|', '(']
        while ci < end:
            if rf.ct(ci).kind == 'ident' and rf.ct(ci - 1).text != '.' and ci + len(want) + 6 < end and [rf.ct(ci + k).text for k in range(1, len(want) + 1)] == want:
                E = rf.ct(ci).text
                op = ci + 11; cp = rf.match(op)
                tp = ci + 13; tc = rf.match(tp)
                inner = [rf.ct(k).text for k in range(tp + 1, tc)]
                if len(inner) != 3 or inner[1] != ',' or rf.ct(tc + 1).text != '|':
                    raise ExtractError(f'{self._where()}: R16 needs a closure `|(a, b)| ..`')
                A, B = inner[0], inner[2]
                BODY = rf.spaced(tc + 2, cp).strip()
                cl = f'invariant_except_break __hit is None,\ninvariant __w <= {E}@.len(),\nensures __hit matches Some(__h) ==> __h + 1 < {E}@.len(),\ndecreases {E}@.len() - __w,\n'
                before = rf.spaced(ci, cp + 1)
                after = (f'{{ let mut __w: usize = 0; let mut __hit: Option<usize> = None; loop\n{cl}{{ if {E}.len() < 2 || __w >= {E}.len() - 1 {{ break; }} '
                         f'let {A} = &{E}[__w]; let {B} = &{E}[__w + 1]; if {BODY} {{ __hit = Some(__w); break; }} __w += 1; }} __hit }}')
                self.clauses += 4
                self.ed.replace(rf.ct(ci).start, rf.ct(cp).end, after)
                self.desugared.append({'rule': 'R16', 'before': ' '.join(before.split()), 'after': ' '.join(after.replace(cl, '').split())})
                found += 1
                ci = cp + 1
                continue
            ci += 1
        if found != 1:
            raise ExtractError(f'{self._where()}: R16 needs exactly one `x.iter().tuple_windows().position(|(a, b)| ..)` (found {found})')

    def _splice_proof(self, p, loops):
        rf, it = self.rf, self.it
        kind = p.get('kind', 'proof')
        text = p['text']
        if kind == 'proof':
            ins = 'proof { ' + text + ' }\n'
        elif kind == 'ghost':
            if not re.match(r'^let ghost (mut )?\w+(\s*:\s*[^=]+)?\s*=\s*[^;]*;$', text.strip(), re.S):
                raise ExtractError(f'ghost splice is not a `let ghost` statement: {text!r}')
            ins = text.strip() + '\n'
        elif kind == 'broadcast':
            if not re.match(r'^broadcast use [\w:, \n]+;$', text.strip()):
                raise ExtractError('broadcast splice malformed')
            ins = text.strip() + '\n'
        else:
            raise ExtractError(f'unknown proof kind {kind}')
        self.clauses += 1
        if p.get('at') == 'body_start':
            self.ed.insert(rf.ct(it.body[0]).end, '\n' + ins, 3)
            return
        if p.get('at') == 'body_end':
            prev = rf.ct(it.body[1] - 1).text
            if prev not in (';', '}', '{'):
                raise ExtractError(f'{self._where()}: fn body ends in an expression; cannot append proof block')
            self.ed.insert(rf.ct(it.body[1]).start, ins, 3)
            return
        if p.get('at') == 'after_loop':
            kwci, ob = loops[p['loop'] - 1]
            cb = rf.match(ob)
            # a desugared loop (R1/R3/R5) is wrapped in one more block whose closing brace is inserted at the same offset
            self.ed.insert(rf.ct(cb).end, '\n' + ins, 8)
            return
        if p.get('at') == 'loop_body_start':
            kwci, ob = loops[p['loop'] - 1]
            self.ed.insert(rf.ct(ob).end, '\n' + ins, 3)
            return
        after = 'after' in p
        anchor = p['after'] if after else p['before']
        nth = p.get('nth', 1)
        atoks = [t.text for t in RustFile('<anchor>', anchor).toks if t.kind not in ('ws', 'lcomment', 'bcomment', 'doc')]
        ci = it.body[0] + 1; end = it.body[1]; seen = 0
        while ci < end:
            if [rf.ct(ci + k).text for k in range(len(atoks)) if ci + k < end] == atoks:
                prev = rf.ct(ci - 1).text
                if prev in (';', '{', '}'):
                    seen += 1
                    if seen == nth:
                        if after:
                            # end of the anchored statement: the next ';' at the same nesting depth
                            k = ci
                            while k < end and rf.ct(k).text != ';':
                                if rf.ct(k).text in ('(', '[', '{'):
                                    k = rf.match(k) + 1
                                elif rf.ct(k).text in (')', ']', '}'):
                                    raise ExtractError(f'{self._where()}: anchor `{anchor}` is not a `;`-terminated statement')
                                else:
                                    k += 1
                            if k >= end:
                                raise ExtractError(f'{self._where()}: anchor `{anchor}` statement end not found')
                            if p.get('after_block'):
                                # after the closing brace of the block that encloses the anchored statement (the statement's
                                # borrows end with that block)
                                k += 1
                                while k < end and rf.ct(k).text != '}':
                                    if rf.ct(k).text in ('(', '[', '{'):
                                        k = rf.match(k) + 1
                                    else:
                                        k += 1
                                if k >= end:
                                    raise ExtractError(f'{self._where()}: anchor `{anchor}`: enclosing block end not found')
                            self.ed.insert(rf.ct(k).end, '\n' + ins, 3)
                            return
                        self.ed.insert(rf.ct(ci).start, ins, 3)
                        return
            ci += 1
        raise ExtractError(f'{self._where()}: anchor `{anchor}` (#{nth}) not found at a statement start')

    def _splice_closure(self, c):
        """closure spec: the closure is addressed by its parameter list text `|l|`; it must have a
        single-expression body. `|P| E` => `|P: T| -> (k: R) ensures C { E }` (types and result name are
        annotations; the body expression is unchanged)."""
        rf, it = self.rf, self.it
        params = ''.join(c['params'].split())
        ci = it.body[0] + 1; end = it.body[1]
        while ci < end:
            if rf.ct(ci).text == '|':
                j = ci + 1
                while j < end and rf.ct(j).text != '|':
                    j += 1
                if rf.joined(ci, j + 1) == params:
                    break
            ci += 1
        else:
            raise ExtractError(f'{self._where()}: closure {params} not found')
        # body: expression up to the matching ')' of the enclosing call
        # enclosing open paren is the nearest unmatched '(' before ci
        k = ci - 1
        if rf.ct(k).text != '(':
            raise ExtractError('closure must be the sole call argument')
        close = rf.match(k)
        body_a = j + 1
        self.ed.replace(rf.ct(ci).start, rf.ct(j).end, c['typed_params'] + ' -> (' + c['result'] + ')' + ((' requires ' + c['requires']) if c.get('requires') else '') + ' ensures ' + c['ensures'] + ' {')
        self.ed.insert(rf.ct(close).start, ' }', 1)
        self.clauses += 1
        self.desugared.append({'rule': 'closure-annotation', 'before': rf.spaced(ci, close), 'after': c['typed_params'] + ' -> (' + c['result'] + ') ensures .. { <same body> }'})


class Unit:
    def __init__(self, name, repo='/repo'):
        self.name = name
        self.repo = repo.rstrip('/')
        self.pieces = []
        self._files = {}
        self.header = ''
        self.canary = bool(os.environ.get('VX_CANARY'))

    def file(self, rel):
        if rel not in self._files:
            try:
                self._files[rel] = RustFile(f'{self.repo}/{rel}')
            except FileNotFoundError:
                raise ExtractError(f'{rel}: file not found')
        return self._files[rel]

    def raw(self, text, name='', props=None):
        self.pieces.append(Piece('raw', text.strip('\n') + '\n', name=name, contract={'props': list(props)} if props else {}))

    def _origin(self, rel, item):
        return f'{rel}:{item.line()}'

    def item(self, rel, selector, cfg_not=None, nth=None, derive=KEEP_DERIVE, structural=False):
        """copy a type/trait item verbatim (after DROPPED)."""
        rf = self.file(rel)
        it = rf.get_item(selector, cfg_not=cfg_not, nth=nth)
        a = rf.ct(it.start).start; b = rf.ct(it.end - 1).end
        ed = Edits(rf, a, b)
        _clean_tokens(rf, ed, it.start, it.end, it.attrs, inner_attrs_ok=True, keep_derive=derive)
        desug = []
        # `structural`: the item derives PartialEq in /repo, i.e. `==` IS structural equality; Verus needs the marker derive to know
        pre = '#[derive(Structural)]\n' if structural else ''
        if structural and not any('PartialEq' in rf.joined(a, b) for a, b in it.attrs):
            raise ExtractError(f'{rel}: {selector} does not derive PartialEq; cannot be marked Structural')
        self.pieces.append(Piece('type', pre + ed.render().strip() + '\n', name=selector, origin=self._origin(rel, it),
                                 sha256=hashlib.sha256(it.raw_text().encode()).hexdigest(), desugared=desug))
        return it

    def trait(self, rel, selector, fns, cfg_not=None, extra_members='', supertrait=''):
        """copy a trait declaration keeping only the listed method declarations (with contracts)."""
        rf = self.file(rel)
        it = rf.get_item(selector, cfg_not=cfg_not)
        hdr = rf.spaced(it.kwi, it.body[0])
        hed = Edits(rf, rf.ct(it.kwi).start, rf.ct(it.body[0]).start)
        _clean_tokens(rf, hed, it.kwi, it.body[0])
        self.pieces.append(Piece('impl-open', 'pub ' + hed.render().strip() + supertrait + ' {\n' + (extra_members.strip('\n') + '\n' if extra_members else ''),
                                 name=selector, origin=self._origin(rel, it)))
        for fname, spec in fns.items():
            self._fn_in(rf, rel, it, fname, spec, qual=selector.split()[-1])
        self.pieces.append(Piece('impl-close', '}\n'))

    def impl(self, rel, selector, fns, nth=None, extra_members='', cfg_not=None):
        rf = self.file(rel)
        it = rf.get_item(selector, nth=nth, cfg_not=cfg_not)
        hed = Edits(rf, rf.ct(it.kwi).start, rf.ct(it.body[0]).start)
        _clean_tokens(rf, hed, it.kwi, it.body[0])
        self.pieces.append(Piece('impl-open', hed.render().strip() + ' {\n' + (extra_members.strip('\n') + '\n' if extra_members else ''),
                                 name=selector, origin=self._origin(rel, it)))
        # qualified name: the self type = last path segment before generics of the header's final type
        key = it.header_key()
        m = re.search(r'for([A-Za-z_]\w*)', key) if 'for' in key and re.search(r'for[A-Z]', key) else None
        qual = m.group(1) if m else re.sub(r'^impl(<[^>]*>)?', '', key)
        qual = re.sub(r'<.*$', '', qual)
        for fname, spec in fns.items():
            self._fn_in(rf, rel, it, fname, spec, qual=qual)
        self.pieces.append(Piece('impl-close', '}\n'))

    def fn(self, rel, fname, spec=None, within_mod=None):
        rf = self.file(rel)
        lo, hi = 0, None
        if within_mod:
            m = rf.get_item('mod ' + within_mod)
            lo, hi = m.body[0] + 1, m.body[1]
        it = rf.get_item('fn ' + fname, lo, hi)
        self._emit_fn(rf, rel, it, fname, spec or {}, qual='')

    def _fn_in(self, rf, rel, parent, fname, spec, qual):
        it = parent.inner('fn ' + fname)
        self._emit_fn(rf, rel, it, fname, spec, qual)

    def _emit_fn(self, rf, rel, it, fname, spec, qual):
        a = rf.ct(it.start).start; b = rf.ct(it.end - 1).end
        ed = Edits(rf, a, b)
        _clean_tokens(rf, ed, it.start, it.end, it.attrs)
        sp = FnSplicer(rf, it, spec, ed)
        sp.splice()
        if self.canary and it.body is not None and not spec.get('external_body'):
            # vacuity canary: `assert(false)` at body start is checked under the preconditions alone; it must FAIL.
            # (It passes only if the spliced `requires` are contradictory.)
            ed.insert(rf.ct(it.body[0]).end, '\nproof { assert(false); } // __vx_canary\n', 2)
        if spec.get('external_body') and it.body is not None:
            # contract assumed: the body is not sent to the verifier at all (only the signature is kept)
            ed.delete(rf.ct(it.body[0]).start, rf.ct(it.body[1]).end)
            ed.insert(rf.ct(it.body[0]).start, '{ unimplemented!() }', 9)
        text = ed.render().strip()
        pre = ''
        if spec.get('external_body'):
            pre = '#[verifier::external_body]\n'
        if spec.get('mode_attr'):
            pre += spec['mode_attr'] + '\n'
        name = (qual + '::' if qual else '') + fname
        self.pieces.append(Piece('fn', pre + text + '\n', name=name, origin=self._origin(rel, it),
                                 sha256=hashlib.sha256(it.raw_text().encode()).hexdigest(),
                                 contract={k: v for k, v in spec.items() if k in ('requires', 'ensures', 'decreases', 'props', 'note', 'external_body', 'assumed', 'proved_in')},
                                 desugared=sp.desugared))
        self.pieces[-1].contract['clauses'] = sp.clauses

    def render(self):
        out = [self.header or '']
        line = out[0].count('\n') + 1
        body = []
        for p in self.pieces:
            p.l0 = line
            body.append(p.text)
            line += p.text.count('\n')
            p.l1 = line - 1
            if p.kind in ('fn', 'raw', 'type'):
                body.append('\n'); line += 1
        return out[0] + ''.join(body)
