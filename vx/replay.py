"""Counterexample search and replay against the real code (DESIGN 2.3).

* Kani violations: the failing harness is re-run with `--concrete-playback=print`; the generated unit
  test (concrete byte values for every kani::any()) is stored in the replay file and executed with
  `cargo kani playback` on the same overlay, i.e. on the real function bodies.
* Verus violations (no model from the solver): the runtime-contract-check program registered for the
  function (rac/registry.py) enumerates small inputs against the real code; a hit is stored as the
  failing input. No hit => the VIOLATION line ends with `no-failing-input-found`.
"""
import json
import os
import re
import shutil
import subprocess

from . import kanirun

ROOT = os.environ.get('VERIF_ROOT') or '/verif'


def _kani_env():
    env = dict(os.environ)
    env['CARGO_NET_OFFLINE'] = 'true'
    env['CARGO_TARGET_DIR'] = kanirun.TARGET
    env.pop('RUSTUP_TOOLCHAIN', None)
    return env


def kani_counterexample(v):
    k = v['kani']
    scratch = kanirun.make_scratch()
    try:
        kanirun.overlay(scratch, [(k['attach'], os.path.join(ROOT, 'kani', k['file']))])
        cmd = ['cargo', 'kani', '-p', k['crate'], '-Z', 'function-contracts', '-Z', 'stubbing', '-Z', 'concrete-playback', '--concrete-playback=print',
               '--exact', '--harness', f'{k["modpath"]}::{k["harness"]}']
        p = subprocess.run(cmd, cwd=scratch, env=_kani_env(), capture_output=True, text=True, timeout=3600)
        out = p.stdout
        m = re.search(r'```\n(.*?)```', out, re.S)
        if not m:
            return None
        test = m.group(1)
        vals = re.findall(r'//\s*(.*)\n\s*vec!\[([^\]]*)\]', test)
        tname = re.search(r'fn (kani_concrete_playback_\w+)', test).group(1)
        found = {'kind': 'kani-concrete-playback', 'values': [{'as_printed_by_cbmc': a.strip(), 'bytes': b.strip()} for a, b in vals],
                 'playback_test': test, 'test_name': tname, 'kani': k}
        # confirm on the real code
        ok, tail = _playback(scratch, k, test, tname)
        found['replayed_on_real_code'] = ok
        found['replay_output'] = tail
        return found
    finally:
        shutil.rmtree(scratch, ignore_errors=True)


def _playback(scratch, k, test, tname):
    """append the generated test next to the harness (inside the overlay module file copy) and run it"""
    hcopy = os.path.join(scratch, '__verif_playback_' + k['file'])
    shutil.copy(os.path.join(ROOT, 'kani', k['file']), hcopy)
    with open(hcopy, 'a') as f:
        f.write('\n' + test + '\n')
    p = os.path.join(scratch, k['attach'])
    src = open(p).read().replace(f'include!("{os.path.join(ROOT, "kani", k["file"])}");', f'include!("{hcopy}");')
    open(p, 'w').write(src)
    cmd = ['cargo', 'kani', 'playback', '-Z', 'concrete-playback', '-p', k['crate'], '--', tname, '--nocapture']
    r = subprocess.run(cmd, cwd=scratch, env=_kani_env(), capture_output=True, text=True, timeout=3600)
    out = r.stdout + r.stderr
    failed = bool(re.search(r'test result: FAILED|panicked at', out))
    return failed, out[-2500:]


def search_counterexample(pid, v):
    if v.get('rac_counterexample'):
        return {'kind': 'rac', 'input': v['rac_counterexample'], 'rac': v.get('rac') or v['obligation'].split(':', 1)[1]}
    if v.get('kani'):
        return kani_counterexample(v)
    # Verus: look for a registered runtime contract check of the failing function
    from rac.registry import RAC_FOR_FUNCTION, RAC
    names = RAC_FOR_FUNCTION.get(v.get('function'), [])
    if not names:
        return None
    from . import racrun
    items = [RAC[n] | {'name': n} for n in names]
    res = racrun.run_tests(items)
    for it in items:
        r = res.get(it['test'])
        if r and r['cex']:
            return {'kind': 'rac', 'rac': it['name'], 'test': it['test'], 'input': r['cex'][0][1], 'cmd': r['cmd'], 'output_tail': r['tail']}
    v['rac_searched'] = [{'rac': it['name'], 'result': (res.get(it['test']) or {}).get('ok')} for it in items]
    return None


def replay_file(path):
    d = json.load(open(path))
    print(f'property={d.get("property")} obligation={d.get("obligation")} function={d.get("function")} at {d.get("repo")}')
    print('verifier said:', d.get('message'))
    fi = d.get('failing_input')
    if not fi:
        print('no failing input was found when the violation was reported; verifier output follows')
        print(d.get('verifier_output', ''))
        return 0
    if fi.get('kind') == 'kani-concrete-playback':
        k = fi['kani']
        scratch = kanirun.make_scratch()
        try:
            kanirun.overlay(scratch, [(k['attach'], os.path.join(ROOT, 'kani', k['file']))])
            failed, tail = _playback(scratch, k, fi['playback_test'], fi['test_name'])
        finally:
            shutil.rmtree(scratch, ignore_errors=True)
        print(tail)
        print('REPLAY: the counterexample', 'still fails' if failed else 'no longer fails', 'on the current /repo')
        return 1 if failed else 0
    if fi.get('kind') == 'rac':
        from rac.registry import RAC
        from . import racrun
        name = fi.get('rac')
        print('failing input:', fi.get('input'))
        if name and name in RAC:
            res = racrun.run_tests([RAC[name] | {'name': name}])
            r = res.get(RAC[name]['test'])
            print(r['tail'] if r else '')
            failed = bool(r and r['cex'])
            print('REPLAY: the runtime contract check', 'still fails' if failed else 'no longer fails', 'on the current /repo')
            return 1 if failed else 0
    return 0
