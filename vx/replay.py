"""Counterexample search / replay against the real code (see DESIGN 2.3)."""
import json


def search_counterexample(pid, v):
    return None


def replay_file(path):
    d = json.load(open(path))
    print(json.dumps({k: d[k] for k in ('property', 'obligation', 'message', 'repo', 'failing_input') if k in d}, indent=1))
    print(d.get('verifier_output', ''))
    return 0


def run_bounded_rac(pid, rac, out, tier):
    pass
