"""check driver: property -> units / harnesses -> decision -> evidence.

exit 0  property held on everything explored (KNOWN-FINDING lines possible)
exit 1  VIOLATION property=<id> replay=<path>[ no-failing-input-found]
exit 2  undecided (anchor lost, unsupported construct, solver limit) - never an alarm
"""
import importlib
import json
import os
import re
import sys
import time
import traceback

from .rustlex import ExtractError
from . import verusrun

ROOT = os.environ.get('VERIF_ROOT') or '/verif'
REPO = os.environ.get('VERIF_REPO', '/repo')


def load_known():
    findings, fixed = [], []
    p = os.path.join(ROOT, 'known_findings.txt')
    if os.path.exists(p):
        for line in open(p):
            line = line.strip()
            if line.startswith('finding:'):
                m = re.match(r'finding:\s*property=(\S+)\s+obligation=(\S+)\s+(.*)$', line)
                if m:
                    f = {'property': m.group(1), 'obligation': m.group(2), 'what': m.group(3)}
                    # optional `observed=<sha256 prefix of the counterexample payload>`: the finding is THIS failing behaviour
                    # only; the same obligation failing with another payload is a new violation
                    mo = re.match(r'observed=([0-9a-f]{16})\s+(.*)$', f['what'])
                    if mo:
                        f['observed'] = mo.group(1); f['what'] = mo.group(2)
                    findings.append(f)
            elif line.startswith('fixed:'):
                fixed.append(line)
    return findings, fixed


def kind_of(msg):
    m = msg.lower()
    if 'postcondition' in m: return 'post'
    if 'precondition' in m: return 'pre'
    if 'invariant' in m: return 'inv'
    if 'overflow' in m or 'underflow' in m: return 'arith'
    if 'decreases' in m or 'termination' in m: return 'term'
    if 'assert' in m: return 'assert'
    if 'index' in m or 'bounds' in m: return 'bounds'
    if 'unreachable' in m or 'panic' in m: return 'panic'
    return 'other'


def proof_internal(f):
    """True for failures of the PROOF rather than of an obligation generated from the code: an `assert` of a spliced
    proof block, a spliced loop invariant, the precondition of a lemma called from a proof block. After such a failure
    Verus assumes the failed fact, so the function's own obligations cannot be read off either way; the verdict is then
    left to the runtime contract check of the function (concrete failing input => violation, none => undecided).
    Postconditions, callee preconditions of executable calls (incl. index bounds), arithmetic and `decreases` are
    obligations generated from the code and are reported directly."""
    k = kind_of(f['message'])
    if k in ('assert', 'inv', 'other'):
        return True
    if k == 'pre':
        call = ' '.join(s['text'] for s in f['spans'] if s.get('primary'))
        return bool(re.search(r'\b(lemma_\w+|lev_\w+)\s*\(', call))
    return False


def obligation_id(unit, f):
    extra = ''
    if kind_of(f['message']) == 'pre':
        # name the callee clause: secondary span text
        sec = [s for s in f['spans'] if not s['primary']]
        if sec:
            extra = ':' + re.sub(r'[^A-Za-z0-9_<>=.+\-]+', '_', sec[0]['text'])[:60]
    return f'verus:{unit}:{f["piece"]}:{kind_of(f["message"])}{extra}'


class Outcome:
    def __init__(self, pid):
        self.pid = pid
        self.violations = []     # dict(obligation, detail)
        self.known = []
        self.undecided = []
        self.obligations = 0
        self.discharged = 0
        self.functions = []
        self.samples = []
        self.trusted = []
        self.assumptions = []
        self.bounded = []
        self.desugared = []
        self.solver = {}
        self.cmds = []
        self.units = []
        self.unverified_scope = []
        self.extra = {}
        self.undecided_units = set()


def scan_trusted(text):
    hits = []
    pats = [(r'assume_specification(?:<[^\[]*>)?\s*\[(.+?)\]\s*\(', 'assume_specification'), (r'#\[verifier::external_body\]\s*(?:pub\s+)?(?:broadcast\s+)?(?:proof\s+|spec\s+|exec\s+)?fn\s+(\w+)', 'external_body'),
            (r'\buninterp\s+spec\s+fn\s+(\w+)', 'uninterp'), (r'\bassume\s*\(([^;]*)\)\s*;', 'assume'), (r'\badmit\s*\(\s*\)', 'admit'),
            (r'#\[verifier::external_type_specification\][^;{]*?struct\s+(\w+)', 'external_type_specification'),
            (r'#\[verifier::external\]\s*(?:pub\s+)?fn\s+(\w+)', 'external'),
            (r'#\[verifier::external_body\]\s*(?:pub\s+)?struct\s+(\w+)', 'external_body_struct')]
    for pat, kind in pats:
        for m in re.finditer(pat, text, re.S):
            g = m.group(1) if m.groups() else ''
            hits.append(f'{kind}: {" ".join(g.split())[:120]}')
    return sorted(set(hits))


def run_verus_units(pid, unit_names, out, tier, variants=None):
    """Build + verify each unit; fold results for pieces tagged with `pid` into `out`."""
    from contracts import trusted as trusted_mod
    findings, _ = load_known()
    kn = {f['obligation']: f for f in findings if f['property'] == pid}
    for uname in unit_names:
        mod = importlib.import_module(f'contracts.units.{uname}')
        try:
            U = mod.build(REPO)
            text = U.render()
        except ExtractError as e:
            out.undecided.append(f'unit {uname}: extraction failed: {e}')
            out.undecided_units.add(uname)
            continue
        hits = scan_trusted(text)
        listed = trusted_mod.TRUSTED
        for h in hits:
            if not any(h.startswith(l) or l in h for l in listed):
                out.undecided.append(f'unit {uname}: assumption not listed in contracts/trusted.py: {h}')
        out.trusted.extend(f'[{uname}] {h}' for h in hits)
        extra = []
        res = verusrun.run_unit(U, text, extra_args=extra)
        out.cmds.append(f'(cd {os.path.dirname(res.path)} && {res.cmd})')
        out.units.append({'unit': uname, 'verified': res.verified, 'errors': res.errors, 'smt_ms': res.smt_ms, 'total_ms': res.total_ms,
                          'wall_s': round(res.wall_s, 2), 'file': res.path})
        out.solver[uname] = {'backend': 'verus 0.2026.09.13 / z3 (bundled)', 'smt_ms': res.smt_ms, 'total_ms': res.total_ms}
        if not res.ok:
            out.undecided.append(f'unit {uname}: {res.undecided}')
            out.undecided_units.add(uname)
            continue
        tagged = [pc for pc in U.pieces if pid in (pc.contract.get('props') or [])]
        if not tagged:
            out.undecided.append(f'unit {uname}: no piece tagged {pid} (vacuous)')
        n_fn = sum(1 for pc in U.pieces if pc.kind == 'fn' and not pc.contract.get('external_body'))
        if res.verified + res.errors < n_fn:
            out.undecided.append(f'unit {uname}: verus checked {res.verified + res.errors} functions, fewer than the {n_fn} extracted')
        if res.undecided:
            out.undecided.append(f'unit {uname}: {res.undecided}')
        for pc in tagged:
            if pc.contract.get('external_body') and pc.contract.get('proved_in'):
                # modular use of a callee contract whose body is verified in another unit of this same check
                if pc.contract['proved_in'] not in unit_names:
                    out.undecided.append(f'unit {uname}: {pc.name} relies on unit {pc.contract["proved_in"]}, which is not part of this check')
                out.extra.setdefault('modular_callee_contracts', []).append(f'[{uname}] {pc.name} ({pc.origin}): only the contract is visible here; the body is verified against the same contract in unit {pc.contract["proved_in"]}')
                continue
            if pc.contract.get('external_body'):
                out.assumptions.append(f'[{uname}] {pc.name} ({pc.origin}): contract ASSUMED, body not verified: ' + (pc.contract.get('assumed') or '; '.join(pc.contract.get('ensures') or [])) + (' -- ' + pc.contract['note'] if pc.contract.get('note') else ''))
                continue
            nob = 1 if pc.kind == 'fn' else max(1, len(re.findall(r'\bproof fn\b', pc.text)))
            out.obligations += nob
            fails = [f for f in res.failures if f['piece'] == pc.name]
            entry = {'unit': uname, 'function': pc.name, 'repo': pc.origin, 'sha256': pc.sha256, 'kind': pc.kind,
                     'clauses': pc.contract.get('clauses', 0), 'status': 'verified' if not fails else 'failed',
                     'ms': res.fn_times.get(pc.name, {}).get('ms')}
            if pc.kind == 'fn':
                out.functions.append(entry)
            if pc.desugared:
                out.desugared.extend({'function': pc.name, **d} for d in pc.desugared)
            if not fails:
                out.discharged += nob
                if pc.kind == 'fn' and len(out.samples) < 12:
                    out.samples.append({'obligation': f'verus:{uname}:{pc.name}', 'repo': pc.origin,
                                        'requires': pc.contract.get('requires'), 'ensures': pc.contract.get('ensures'),
                                        'decreases': pc.contract.get('decreases')})
                continue
            unknown = []
            for f in fails:
                oid = obligation_id(uname, f)
                if oid in kn:
                    if kn[oid] not in out.known:
                        out.known.append(kn[oid])
                else:
                    unknown.append((oid, f))
            if not unknown:
                # every failure in this function is a listed finding: count the rest as discharged
                out.discharged += 0
                out.obligations -= nob
                out.extra.setdefault('known_finding_functions', []).append(pc.name)
            # A failed `assert` inside a spliced proof block is a failed proof HINT, not an obligation generated
            # from the code; when nothing but hints fail in a function the verdict is left to the runtime contract
            # check of that function (main.py): a concrete failing input => violation, none => undecided.
            hint_only = bool(unknown) and all(proof_internal(f) for _, f in unknown)
            for oid, f in unknown:
                out.violations.append({'obligation': oid, 'unit': uname, 'function': pc.name, 'repo': pc.origin,
                                       'message': f['message'], 'spans': f['spans'], 'verifier_output': f['rendered'],
                                       'generated_file': res.path, 'hint_only': hint_only})
        if tier == 'thorough' and not res.undecided:
            _thorough_extras(pid, uname, mod, U, res, out)
        # failures in untagged pieces of the unit (helpers): they make this unit's premises unsound
        for f in res.failures:
            pc = next((p for p in U.pieces if p.name == f['piece']), None)
            if pc is not None and pid in (pc.contract.get('props') or []):
                continue
            oid = obligation_id(uname, f)
            allk = {x['obligation'] for x in findings}
            if oid in allk:
                continue
            out.undecided.append(f'unit {uname}: helper {f["piece"]} (not tagged {pid}) fails: {f["message"]}')


def _thorough_extras(pid, uname, mod, U, res, out):
    """thorough tier: (1) re-run the unit with a second SMT seed - a function whose verdict flips is undecided;
    (2) vacuity canaries - every function under contract must REJECT `assert(false)` at its body start."""
    seed = int(os.environ.get('VERIF_SEED') or 0) + 17
    r2 = verusrun.run_unit(U, U.render(), extra_args=['--smt-option', f'smt.random_seed={seed}'])
    flips = [n for n, st in res.fn_status.items() if r2.fn_status.get(n) != st]
    if not r2.ok or flips:
        out.undecided.append(f'unit {uname}: verdict not stable under SMT seed {seed}: {flips or r2.undecided}')
    out.extra.setdefault('second_seed', []).append({'unit': uname, 'seed': seed, 'verified': r2.verified, 'errors': r2.errors, 'stable': not flips})
    os.environ['VX_CANARY'] = '1'
    try:
        Uc = mod.build(REPO)
        tc = Uc.render()
    finally:
        os.environ.pop('VX_CANARY', None)
    Uc.name = U.name + '_canary'
    rc = verusrun.run_unit(Uc, tc)
    exec_fns = [pc.name for pc in Uc.pieces if pc.kind == 'fn' and '__vx_canary' in pc.text]
    failed = {f['piece'] for f in rc.failures if 'assert' in f['message'].lower()}
    vac = [n for n in exec_fns if n not in failed]
    if not rc.ok or vac:
        out.undecided.append(f'unit {uname}: vacuity canary NOT rejected for {vac or rc.undecided} (contradictory requires?)')
    out.extra.setdefault('canaries', []).append({'unit': uname, 'functions': len(exec_fns), 'rejected': len(exec_fns) - len(vac)})


def write_replay(pid, v, inputs=None):
    d = os.path.join(ROOT, 'replays')
    os.makedirs(d, exist_ok=True)
    ts = time.strftime('%Y%m%d-%H%M%S')
    path = os.path.join(d, f'{pid}-{ts}-{abs(hash(v["obligation"])) % 100000}.json')
    body = dict(v)
    body['property'] = pid
    body['failing_input'] = inputs
    with open(path, 'w') as f:
        json.dump(body, f, indent=1)
    return path


def finish(pid, out, tier, seed, t0, level, spec):
    ev = {
        'property_id': pid, 'tier': tier, 'seed': seed, 'level': level,
        'coverage': {
            'obligations': out.obligations, 'discharged': out.discharged,
            'checker_cmd': ' ; '.join(out.cmds) or 'none',
            'trusted_base': sorted(set(out.trusted)),
            'functions_under_contract': out.functions,
            'samples': out.samples or [{'note': 'no obligation discharged'}],
            'bounded': out.bounded,
            'desugared': out.desugared,
            'units': out.units,
            'solver': out.solver,
            'not_under_contract': spec.get('unverified', []),
            'known_findings': out.known,
            'undecided': out.undecided,
            **out.extra,
        },
        'assumptions': sorted(set(out.assumptions)) + spec.get('assumptions', []),
        'wall_s': round(time.time() - t0, 2),
        'violations': len(out.violations),
    }
    if level == 'model_checking':
        ok = [b for b in out.bounded if b.get('result') == 'SUCCESSFUL']
        n_states = sum(int(b.get('input_states') or 0) for b in ok)
        ev['coverage'].update({
            'states': max(1, n_states),
            'transitions': max(1, sum(int(b.get('checks') or 0) for b in out.bounded)),
            'traces_validated_against_impl': len(out.bounded),
            'evaluations': sum(int(b.get('checks') or 0) for b in out.bounded),
            'distinct_nontrivial': len(ok),
            'rule': 'states = number of concrete input states (text, index/span) inside the stated bounds of the harnesses that verified, each covered symbolically by CBMC; '
                    'transitions = CBMC property checks decided (each for ALL inputs within the bound); traces_validated_against_impl = harnesses executed on the real '
                    'function bodies (the model IS the code: Kani compiles /repo itself, there is no separate model to validate); '
                    'distinct_nontrivial = harnesses that verified AND whose kani::cover! reachability guards were satisfied',
            'exhaustive': True,
            'explanation': 'bounded symbolic model checking: exhaustive within each harness bound, nothing beyond it',
        })
    if level == 'exploration':
        racs = [b for b in out.bounded if b.get('kind') == 'bounded-rac' and b.get('result') == 'SUCCESSFUL']
        ev['coverage'].update({
            'evaluations': sum(int(b.get('checks') or 0) for b in racs),
            'distinct_nontrivial': sum(int(b.get('nontrivial') or 0) for b in racs),
            'rule': 'BOUNDED runtime check of the function contract on the real code (cfg(test) overlay of /repo): the inputs are enumerated '
                    'exhaustively inside the bound each program states (coverage.bounded[].bound); evaluations = inputs on which every clause of the '
                    'contract was evaluated; distinct_nontrivial = inputs, all distinct by construction of the enumeration, on which the operation '
                    'under contract actually did something (rule per program: the output differs from the input / a lint exists / the record holds hostile text)',
            'exhaustive': True,
            'explanation': 'no verifier reaches these functions (external serde_json / hashing / dictionary data / BTreeMap<String>): the contract is '
                           'executed, not proved; nothing here counts as a discharged obligation',
        })
        if not ev['coverage']['samples'] or 'note' in ev['coverage']['samples'][0]:
            ev['coverage']['samples'] = [{'bounded-rac': b['harness'], 'bound': b.get('bound')} for b in racs] or [{'note': 'nothing ran'}]
    os.makedirs(os.path.join(ROOT, 'evidence'), exist_ok=True)
    with open(os.path.join(ROOT, 'evidence', f'{pid}.json'), 'w') as f:
        json.dump(ev, f, indent=1)
    for k in out.known:
        print(f'KNOWN-FINDING: property={pid} {k["obligation"]} {k["what"]}')
    if out.violations:
        for v in out.violations:
            print(f'  failed obligation {v["obligation"]} at {v.get("repo", "")}: {v["message"]}')
        return 1
    if out.undecided:
        for u in out.undecided:
            print(f'UNDECIDED: {u}', file=sys.stderr)
        return 2
    if out.obligations == 0 and not out.bounded:
        print('UNDECIDED: zero obligations generated (vacuous run)', file=sys.stderr)
        return 2
    print(f'OK property={pid} tier={tier} obligations={out.obligations} discharged={out.discharged} bounded_harnesses={len(out.bounded)} wall={ev["wall_s"]}s')
    return 0
