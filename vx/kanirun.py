"""Engine K: run Kani harnesses against an append-only overlay of /repo's current working tree.

The scratch copy lives under a fresh mktemp directory outside /repo and /verif and is removed when
the run ends. Overlay = one `#[cfg(kani)] mod __verif_kani_<name> { use super::*; include!(..); }`
appended to the module file a harness file is attached to (so private functions are reachable);
no existing line of /repo is modified.
"""
import json
import os
import re
import shutil
import subprocess
import tempfile
import time

ROOT = os.environ.get('VERIF_ROOT') or '/verif'
REPO = os.environ.get('VERIF_REPO', '/repo')
TARGET = os.path.join(ROOT, '.cache', 'kani-target')


_PENDING = {}


def _hash_tree(d):
    import hashlib
    out = {}
    for root, dirs, files in os.walk(d):
        dirs[:] = [x for x in dirs if x not in ('target', '.git', 'node_modules', 'packages')]
        for fn in files:
            p = os.path.join(root, fn)
            try:
                with open(p, 'rb') as f:
                    out[os.path.relpath(p, d)] = hashlib.sha1(f.read()).hexdigest()
            except OSError:
                pass
    return out


def make_scratch(cache=None):
    """rsync /repo into a fresh temp dir (see refresh_for for why the content hashes are taken)."""
    d = tempfile.mkdtemp(prefix='harper-kani-')
    subprocess.run(['rsync', '-a', '--exclude', 'target', '--exclude', '.git', '--exclude', 'packages', '--exclude', 'node_modules',
                    '--exclude', 'rust-toolchain.toml', REPO.rstrip('/') + '/', d + '/'], check=True)
    _PENDING[d] = _hash_tree(d)
    return d


def refresh_for(d, cache, key):
    """cargo decides freshness by comparing source mtimes with the time of the last build in the shared target dir, and it
    records workspace-RELATIVE paths - so a file whose content changed but whose mtime is old (a tree restored from an
    archive, `cp -p`, ...) would be served from a stale artifact. Before building crate `key` from scratch dir d, every file
    whose content differs from the manifest of the last SUCCESSFUL build of that crate in that target dir gets mtime = now."""
    cur = _PENDING.get(d)
    if cur is None:
        return
    try:
        prev = json.load(open(os.path.join(cache, f'src-manifest-{key}.json')))
    except Exception:
        prev = {}
    now = time.time()
    for rel, h in cur.items():
        if prev.get(rel) != h:
            try:
                os.utime(os.path.join(d, rel), (now, now))
            except OSError:
                pass


def commit_for(d, cache, key):
    """after a successful build of crate `key` from scratch dir d: its artifacts now correspond to these sources"""
    cur = _PENDING.get(d)
    if cur is None:
        return
    try:
        os.makedirs(cache, exist_ok=True)
        json.dump(cur, open(os.path.join(cache, f'src-manifest-{key}.json'), 'w'))
    except Exception:
        pass


def overlay(scratch, files):
    """files: list of (attach_path_relative_to_repo, harness_file_abs)"""
    done = set()
    for attach, hfile in files:
        if (attach, hfile) in done:
            continue
        done.add((attach, hfile))
        p = os.path.join(scratch, attach)
        if not os.path.exists(p):
            raise FileNotFoundError(attach)
        modname = '__verif_kani_' + re.sub(r'\W', '_', os.path.basename(hfile).rsplit('.', 1)[0])
        with open(p, 'a') as f:
            f.write(f'\n#[cfg(kani)]\nmod {modname} {{\n    #[allow(unused_imports)]\n    use super::*;\n    include!("{hfile}");\n}}\n')


def split_blocks(text):
    """cargo-kani output -> {harness full name: result text}; understands the `Thread N:` prefixes of -j runs."""
    cur = {}
    blocks = {}
    active = None
    for line in text.splitlines():
        m = re.match(r'^(?:Thread (\d+): )?Checking harness (\S+?)\.\.\.', line)
        if m:
            cur[m.group(1)] = m.group(2)
            blocks.setdefault(m.group(2), [])
            active = m.group(2) if m.group(1) is None else None
            continue
        m = re.match(r'^Thread (\d+): ?(.*)$', line)
        if m:
            active = cur.get(m.group(1))
            if active is not None and m.group(2):
                blocks[active].append(m.group(2))
            continue
        if line.startswith('Manual Harness Summary') or line.startswith('Complete - '):
            active = None
            continue
        if active is not None:
            blocks[active].append(line)
    return {k: '\n'.join(v) for k, v in blocks.items()}


def parse_output(text):
    res = {}
    for name, part in split_blocks(text).items():
        short = name.split('::')[-1]
        status = None
        m = re.search(r'^VERIFICATION:- (\w+)', part, re.M)
        if m:
            status = m.group(1)
        m2 = re.search(r'\*\* (\d+) of (\d+) failed', part)
        failed_n, total = (int(m2.group(1)), int(m2.group(2))) if m2 else (None, None)
        m3 = re.search(r'Verification Time: ([\d.]+)s', part)
        fails = []
        for fm in re.finditer(r'^Failed Checks: (.*)\n(?: File: "([^"]*)", line (\d+), in (\S+))?', part, re.M):
            fails.append({'check': fm.group(1).strip(), 'file': fm.group(2), 'line': fm.group(3), 'fn': fm.group(4)})
        m4 = re.search(r'\*\* (\d+) of (\d+) cover properties satisfied', part)
        stubs = re.findall(r'^\s*- Stub: (.*)$', part, re.M)
        res[short] = {'harness': name, 'status': status, 'failed': failed_n, 'checks': total, 'time_s': float(m3.group(1)) if m3 else None,
                      'failed_checks': fails, 'covers_satisfied': (int(m4.group(1)), int(m4.group(2))) if m4 else None,
                      'raw_tail': part[-3000:]}
    return res


def run_group(crate, harness_names, scratch, jobs=4, timeout=3600, extra=()):
    env = dict(os.environ)
    env['CARGO_NET_OFFLINE'] = 'true'
    env['CARGO_TARGET_DIR'] = TARGET
    env.pop('RUSTUP_TOOLCHAIN', None)
    cmd = ['cargo', 'kani', '-p', crate, '-Z', 'function-contracts', '-Z', 'stubbing', '-Z', 'unstable-options', '--harness-timeout', str(timeout) + 's',
           '-j', str(jobs), '--output-format', 'terse', '--exact'] + list(extra)
    for h in harness_names:
        cmd += ['--harness', h]
    t0 = time.time()
    try:
        p = subprocess.run(cmd, cwd=scratch, env=env, capture_output=True, text=True, timeout=timeout + 900)
        out = p.stdout + '\n' + p.stderr
        rc = p.returncode
    except subprocess.TimeoutExpired as e:
        out = (e.stdout or b'').decode(errors='replace') if isinstance(e.stdout, bytes) else (e.stdout or '')
        rc = -9
    return cmd, rc, out, time.time() - t0


def run_harnesses(pid, names, out, tier):
    from kani.harnesses import HARNESSES
    from .driver import load_known
    findings, _ = load_known()
    kn = {f['obligation']: f for f in findings if f['property'] == pid}
    hs = [(n, HARNESSES[n]) for n in names]
    scratch = None
    try:
        try:
            scratch = make_scratch()
            overlay(scratch, [(h['attach'], os.path.join(ROOT, 'kani', h['file'])) for _, h in hs])
        except Exception as e:
            out.undecided.append(f'kani overlay failed (anchor lost?): {e!r}')
            return
        by_crate = {}
        for n, h in hs:
            by_crate.setdefault(h['crate'], []).append((n, h))
        for crate, group in by_crate.items():
            full = [f'{h["modpath"]}::{h["harness"]}' for _, h in group]
            tmo = max(h.get('timeout', 600) for _, h in group)
            refresh_for(scratch, TARGET, crate)
            cmd, rc, text, wall = run_group(crate, full, scratch, jobs=min(4, len(group)), timeout=tmo)
            out.cmds.append('(overlay of /repo) ' + ' '.join(cmd))
            os.makedirs(os.path.join(ROOT, '.cache'), exist_ok=True)
            open(os.path.join(ROOT, '.cache', f'kani-last-{pid}-{crate}.log'), 'w').write(text)
            res = parse_output(text)
            out.solver.setdefault('kani', []).append({'crate': crate, 'wall_s': round(wall, 1), 'backend': 'kani 0.68 / cbmc 6.11'})
            if not res:
                out.undecided.append(f'kani produced no harness results for {crate} (build failure?): ' + text[-1500:])
                continue
            commit_for(scratch, TARGET, crate)
            for n, h in group:
                r = res.get(h['harness'])
                oid = f'kani:{n}'
                if r is None or r['status'] is None:
                    out.undecided.append(f'{oid}: no verdict (timeout / out of memory / not found)')
                    continue
                entry = {'harness': n, 'kind': h['kind'], 'bound': h.get('bound', 'none (loop-free, full domain)'), 'checks': r['checks'],
                         'result': r['status'], 'cbmc_s': r['time_s'], 'function': h.get('function'), 'repo': h['attach'], 'input_states': h.get('input_states', 0)}
                if r['status'] == 'SUCCESSFUL':
                    if not r['checks']:
                        out.undecided.append(f'{oid}: zero checks (vacuous)')
                        continue
                    cs = r['covers_satisfied']
                    if h.get('covers', True) and (cs is None or cs[0] != cs[1]):
                        out.undecided.append(f'{oid}: cover property not satisfied (vacuity guard): {cs}')
                        continue
                    if h['kind'] == 'complete':
                        out.obligations += 1
                        out.discharged += 1
                        out.functions.append({'unit': 'kani', 'function': h.get('function'), 'repo': h['attach'], 'kind': 'kani-complete',
                                              'status': 'verified', 'harness': n, 'checks': r['checks'], 'ms': int((r['time_s'] or 0) * 1000)})
                        out.samples.append({'obligation': oid, 'says': h['says'], 'checks': r['checks']})
                    else:
                        out.bounded.append(entry)
                        if len(out.samples) < 16:
                            out.samples.append({'obligation': oid + ' (bounded)', 'says': h['says'], 'bound': h.get('bound')})
                else:
                    # classify: a failed unwinding assertion with a too-small bound is undecided unless the
                    # harness says that over-running the bound *is* the defect
                    only_unwind = r['failed_checks'] and all('unwinding assertion' in f['check'] for f in r['failed_checks'])
                    if only_unwind and not h.get('unwind_is_violation'):
                        out.undecided.append(f'{oid}: unwinding bound too small')
                        continue
                    if not r['failed_checks']:
                        out.undecided.append(f'{oid}: FAILED without a failed check (CBMC error?): ' + r['raw_tail'][-500:])
                        continue
                    sub = [oid + ':' + re.sub(r'\W+', '_', f['check'])[:80] for f in r['failed_checks']]
                    if oid in kn or all(s in kn for s in sub):
                        k = kn.get(oid) or kn[sub[0]]
                        if k not in out.known:
                            out.known.append(k)
                        entry['result'] = 'KNOWN-FINDING'
                        out.bounded.append(entry)
                        continue
                    if h['kind'] == 'complete':
                        out.obligations += 1
                    out.violations.append({'obligation': oid, 'unit': 'kani', 'function': h.get('function'), 'repo': h['attach'],
                                           'message': '; '.join(f['check'] for f in r['failed_checks'])[:500], 'spans': r['failed_checks'],
                                           'verifier_output': r['raw_tail'], 'kani': {'crate': crate, 'harness': h['harness'], 'modpath': h['modpath'],
                                                                                      'attach': h['attach'], 'file': h['file']}})
    finally:
        if scratch and not os.environ.get('VERIF_KEEP_SCRATCH'):
            shutil.rmtree(scratch, ignore_errors=True)
