"""Run Verus on a rendered unit and attribute every diagnostic to a piece (function / lemma)."""
import json
import os
import re
import subprocess
import time
import hashlib

CACHE = (os.environ.get('VERIF_ROOT') or '/verif') + '/.cache/vx'
VERUS_ARGS = ['--output-json', '--time', '--triggers-mode', 'silent', '--error-format=json', '--multiple-errors', '5', '--rlimit', '60']

# verifier messages that mean "an obligation generated from the code is not provable"
OBLIGATION_MSG = (
    'postcondition not satisfied', 'precondition not satisfied', 'invariant not satisfied',
    'possible arithmetic underflow/overflow', 'assertion failed', 'decreases not satisfied',
    'possible division by zero', 'index out of bounds', 'unreachable', 'loop invariant',
    'possible bit shift', 'recommendation not met', 'panic', 'failed this', 'might not be',
    'cannot show', 'could not show', 'possible', 'not satisfied',
)
UNDECIDED_MSG = ('rlimit', 'Resource limit', 'timed out', 'time limit')


class UnitResult:
    def __init__(self):
        self.ok = False            # verus ran to completion and produced json
        self.undecided = None      # reason string if the run is not interpretable
        self.verified = 0
        self.errors = 0
        self.fn_status = {}        # piece name -> 'verified' | 'failed'
        self.failures = []         # dicts: piece, message, line, text, rendered
        self.smt_ms = 0
        self.total_ms = 0
        self.fn_times = {}
        self.cmd = ''
        self.stderr = ''
        self.wall_s = 0.0


def run_unit(unit, text, extra_args=(), workdir=None, threads=8):
    os.makedirs(CACHE, exist_ok=True)
    h = hashlib.sha256(text.encode()).hexdigest()[:16]
    d = workdir or os.path.join(CACHE, f'{unit.name}-{h}')
    os.makedirs(d, exist_ok=True)
    path = os.path.join(d, f'{unit.name}.rs')
    with open(path, 'w') as f:
        f.write(text)
    cmd = ['verus', f'{unit.name}.rs'] + VERUS_ARGS + ['--num-threads', str(threads)] + list(extra_args)
    res = UnitResult()
    res.cmd = ' '.join(cmd)
    res.path = path
    t0 = time.time()
    try:
        p = subprocess.run(cmd, cwd=d, capture_output=True, text=True, timeout=1500)
    except subprocess.TimeoutExpired:
        res.undecided = 'verus wall-clock timeout (1500 s)'
        return res
    res.wall_s = time.time() - t0
    res.stderr = p.stderr
    try:
        j = json.loads(p.stdout)
    except Exception:
        j = None
    diags = []
    for line in p.stderr.splitlines():
        line = line.strip()
        if line.startswith('{'):
            try:
                diags.append(json.loads(line))
            except Exception:
                pass
    ignore = getattr(unit, 'ignore_errors', ())
    errs = [dg for dg in diags if dg.get('level') == 'error' and not any(x in dg.get('message', '') for x in ignore)]
    if j is None or 'verification-results' not in j:
        msgs = '; '.join(dg.get('message', '') for dg in errs[:5]) or p.stderr[-2000:]
        res.undecided = 'verus did not complete (front-end error): ' + msgs
        res.failures = [_mk_failure(unit, dg) for dg in errs]
        return res
    vr = j['verification-results']
    if vr.get('encountered-vir-error'):
        res.undecided = 'verus front-end (VIR) error: ' + '; '.join(dg.get('message', '') for dg in errs[:5])
        res.failures = [_mk_failure(unit, dg) for dg in errs]
        return res
    res.ok = True
    res.verified = vr.get('verified', 0)
    res.errors = vr.get('errors', 0)
    tm = j.get('times-ms', {})
    res.total_ms = tm.get('total', 0)
    res.smt_ms = tm.get('smt', {}).get('total', 0)
    for mod in tm.get('smt', {}).get('smt-run-module-times', []):
        for fb in mod.get('function-breakdown', []):
            nm = fb['function'].split('::', 1)[1] if '::' in fb['function'] else fb['function']
            res.fn_times[nm] = {'ms': fb.get('time', 0), 'rlimit': fb.get('rlimit', 0), 'success': fb.get('success')}
    for dg in errs:
        msg = dg.get('message', '')
        if msg.startswith('aborting due to'):
            continue
        f = _mk_failure(unit, dg)
        if any(u.lower() in msg.lower() for u in UNDECIDED_MSG):
            res.undecided = f'solver resource limit in {f["piece"]}: {msg}'
        res.failures.append(f)
    failed = {f['piece'] for f in res.failures}
    for pc in unit.pieces:
        if pc.kind == 'fn' or (pc.kind == 'raw' and pc.name):
            res.fn_status[pc.name] = 'failed' if pc.name in failed else 'verified'
    if res.errors and not res.failures:
        res.undecided = 'verus reports errors but none could be attributed'
    return res


def _piece_at(unit, line):
    for pc in unit.pieces:
        if pc.l0 <= line <= pc.l1:
            return pc
    return None


def _mk_failure(unit, dg):
    spans = dg.get('spans', [])
    prim = [s for s in spans if s.get('is_primary')] or spans
    line = prim[0]['line_start'] if prim else 0
    pc = None
    # attribute to the piece containing the *primary* span when it is a fn; the secondary span may
    # point at a callee's `requires` (precondition failures) or at the clause that failed
    cands = [s['line_start'] for s in prim] + [s['line_start'] for s in spans]
    msg = dg.get('message', '')
    if msg.startswith('precondition not satisfied'):
        # primary = call site
        pass
    for ln in cands:
        p = _piece_at(unit, ln)
        if p is not None and p.kind == 'fn':
            pc = p; line = ln; break
    if pc is None:
        for ln in cands:
            p = _piece_at(unit, ln)
            if p is not None:
                pc = p; line = ln; break
    labels = []
    for s in spans:
        txt = ' '.join(t['text'].strip() for t in s.get('text', [])[:3])
        labels.append({'line': s['line_start'], 'label': s.get('label'), 'text': txt[:300], 'primary': s.get('is_primary')})
    return {'piece': pc.name if pc else '?', 'piece_kind': pc.kind if pc else '?', 'origin': pc.origin if pc else '',
            'message': msg, 'line': line, 'spans': labels, 'rendered': (dg.get('rendered') or '')[:4000]}
