"""Runtime contract checks against the real code (DESIGN 2.3): `#[cfg(test)]` modules appended to a
scratch copy of /repo (append-only overlay), run with cargo test. Used (a) to look for a concrete
failing input after a verifier reported a failed obligation, (b) as the stated bounded stand-in for
VecExt::remove_indices."""
import json
import os
import re
import shutil
import subprocess
import time

from . import kanirun

ROOT = '/verif'
TARGET = os.path.join(ROOT, '.cache', 'rac-target')


def overlay(scratch, attach, rfile):
    p = os.path.join(scratch, attach)
    modname = '__verif_rac_' + re.sub(r'\W', '_', os.path.basename(rfile).rsplit('.', 1)[0])
    with open(p, 'a') as f:
        f.write(f'\n#[cfg(test)]\nmod {modname} {{\n    #[allow(unused_imports)]\n    use super::*;\n    include!("{rfile}");\n}}\n')
    return modname


def run_tests(items, timeout=300, scratch=None):
    """items: list of dict(crate, attach, file, test). Returns (results, log). results[test] = dict(ok, cex, stats)"""
    own = scratch is None
    if own:
        scratch = kanirun.make_scratch()
    results = {}
    logs = []
    try:
        done = set()
        by_crate = {}
        for it in items:
            key = (it['attach'], it['file'])
            if key not in done:
                overlay(scratch, it['attach'], os.path.join(ROOT, 'rac', it['file']))
                done.add(key)
            by_crate.setdefault(it['crate'], []).append(it)
        env = dict(os.environ)
        env['CARGO_NET_OFFLINE'] = 'true'
        env['CARGO_TARGET_DIR'] = TARGET
        env['RUSTUP_TOOLCHAIN'] = 'stable-x86_64-unknown-linux-gnu'
        env['RUST_BACKTRACE'] = '0'
        for crate, its in by_crate.items():
            # build first, without the per-test time budget (a cold build of harper-ls takes minutes)
            targets = []
            for it in its:
                tg = it.get('target', ['--lib'])
                if tg not in targets:
                    targets.append(tg)
            for tg in targets:
                try:
                    subprocess.run(['cargo', 'test', '--offline', '-q', '-p', crate] + tg + ['--no-run'], cwd=scratch, env=env, capture_output=True, text=True, timeout=3600)
                except subprocess.TimeoutExpired:
                    pass
            for it in its:
                cmd = ['cargo', 'test', '--offline', '-q', '-p', crate] + it.get('target', ['--lib']) + [it['test'], '--', '--nocapture', '--test-threads=1']
                t0 = time.time()
                try:
                    p = subprocess.run(cmd, cwd=scratch, env=env, capture_output=True, text=True, timeout=timeout)
                    out = p.stdout + '\n' + p.stderr
                    rc = p.returncode
                except subprocess.TimeoutExpired:
                    out, rc = 'timeout', -9
                logs.append(out[-4000:])
                ok = re.findall(r'^RAC-OK (\S+) (.*)$', out, re.M)
                cex = re.findall(r'^RAC-CEX (\S+) (.*)$', out, re.M)
                if not ok and not cex and rc not in (0, -9):
                    # the test ran and died outside the check's own catch_unwind: the code under check panicked
                    pm = re.search(r"^thread '[^']*' \(?\d*\)? ?panicked at ([^\n]*)\n([^\n]*)", out, re.M)
                    if pm and re.search(r'test result: FAILED', out) and '/verif/rac/' not in pm.group(1):
                        cex = [(it['test'], json.dumps({'why': 'the code under check panicked', 'at': pm.group(1).strip(), 'message': pm.group(2).strip()}))]
                ran = re.search(r'test result: (\w+)\. (\d+) passed; (\d+) failed', out)
                results[it['test']] = {'rc': rc, 'ok': ok, 'cex': cex, 'ran': ran.groups() if ran else None, 'cmd': ' '.join(cmd),
                                       'wall_s': round(time.time() - t0, 1), 'tail': out[-1500:]}
    finally:
        if own and not os.environ.get('VERIF_KEEP_SCRATCH'):
            shutil.rmtree(scratch, ignore_errors=True)
    return results


def run_bounded_rac(pid, racs, out, tier):
    from rac.registry import RAC
    from .driver import load_known
    items = [RAC[n] | {'name': n} for n in racs]
    res = run_tests(items)
    for it in items:
        r = res.get(it['test'])
        oid = f'rac:{it["name"]}'
        if r is None or r['ran'] is None or (not r['ok'] and not r['cex']):
            out.undecided.append(f'{oid}: runtime contract check did not run: ' + (r['tail'][-600:] if r else ''))
            continue
        out.cmds.append('(overlay of /repo) ' + r['cmd'])
        if r['cex']:
            findings, _ = load_known()
            kn = {f['obligation']: f for f in findings if f['property'] == pid}
            if oid in kn:
                if kn[oid] not in out.known:
                    out.known.append(kn[oid])
                out.bounded.append({'harness': oid, 'kind': 'bounded-rac', 'result': 'KNOWN-FINDING', 'function': it['function'], 'repo': it['attach'],
                                    'counterexample': r['cex'][0][1][:300]})
                continue
            out.violations.append({'obligation': oid, 'unit': 'rac', 'function': it['function'], 'repo': it['attach'],
                                   'message': 'runtime contract check failed: ' + r['cex'][0][1][:300], 'spans': [],
                                   'verifier_output': r['tail'], 'rac_counterexample': r['cex'][0][1]})
            continue
        stats = dict(kv.split('=', 1) for kv in r['ok'][0][1].split())
        out.bounded.append({'harness': oid, 'kind': 'bounded-rac', 'bound': stats.get('bound'), 'checks': int(stats.get('cases', 0)),
                            'nontrivial': int(stats.get('nontrivial', 0)), 'result': 'SUCCESSFUL', 'function': it['function'], 'repo': it['attach'],
                            'wall_s': r['wall_s']})


def fallback_for_undecided_units(pid, units, out):
    """A unit that Verus could not even take (anchor lost / unsupported construct after a rewrite) is
    undecided - unless the runtime contract check of its functions finds a concrete failing input on
    the real code, which is a refutation that needs no prover."""
    from rac.registry import RAC, UNIT_RAC
    names = []
    for u in sorted(units):
        names += [n for n in UNIT_RAC.get(u, []) if n not in names]
    if not names:
        return
    items = [RAC[n] | {'name': n} for n in names]
    res = run_tests(items)
    for it in items:
        r = res.get(it['test'])
        if r and r['cex']:
            out.violations.append({'obligation': f'rac:{it["name"]}', 'unit': 'rac-fallback', 'function': it['function'], 'repo': it['attach'],
                                   'message': 'unit undecided by Verus; runtime contract check found a failing input on the real code: ' + r['cex'][0][1][:300],
                                   'spans': [], 'verifier_output': r['tail'], 'rac_counterexample': r['cex'][0][1], 'rac': it['name']})
        else:
            out.extra.setdefault('rac_fallback', []).append({'rac': it['name'], 'result': (r or {}).get('ok') or (r or {}).get('tail', '')[-300:]})
