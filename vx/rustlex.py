"""Token-level view of a Rust source file: enough lexing to locate items, fns, loops and
statement boundaries without regexes over raw text.

A token is (kind, text, start, end) with byte^Wchar offsets into the file text.
kinds: 'ws', 'lcomment', 'bcomment', 'doc' (/// //! /** /*!), 'str', 'char', 'lifetime',
       'ident', 'num', 'punct'.
"""
from dataclasses import dataclass
import bisect


class ExtractError(Exception):
    """Anchor lost / construct not understood: the check must exit 2 (undecided), never alarm."""


@dataclass
class Tok:
    kind: str
    text: str
    start: int
    end: int


def _is_ident_start(c):
    return c == '_' or c.isalpha()


def _is_ident_cont(c):
    return c == '_' or c.isalnum()


def lex(s):
    toks = []
    n = len(s)
    i = 0
    while i < n:
        c = s[i]
        if c.isspace():
            j = i + 1
            while j < n and s[j].isspace():
                j += 1
            toks.append(Tok('ws', s[i:j], i, j)); i = j; continue
        if s.startswith('//', i):
            j = s.find('\n', i)
            j = n if j < 0 else j
            txt = s[i:j]
            kind = 'doc' if (txt.startswith('///') and not txt.startswith('////')) or txt.startswith('//!') else 'lcomment'
            toks.append(Tok(kind, txt, i, j)); i = j; continue
        if s.startswith('/*', i):
            d = 1; j = i + 2
            while j < n and d > 0:
                if s.startswith('/*', j): d += 1; j += 2
                elif s.startswith('*/', j): d -= 1; j += 2
                else: j += 1
            if d != 0:
                raise ExtractError('unterminated block comment')
            txt = s[i:j]
            kind = 'doc' if (txt.startswith('/**') and not txt.startswith('/***') and txt != '/**/') or txt.startswith('/*!') else 'bcomment'
            toks.append(Tok(kind, txt, i, j)); i = j; continue
        # raw strings / byte strings / raw identifiers
        if c in 'rbc':
            j = i
            if s.startswith('br', i) or s.startswith('cr', i):
                j = i + 2
            elif c == 'r':
                j = i + 1
            elif c in 'bc' and i + 1 < n and s[i + 1] in '"\'':
                j = i + 1
            if j > i and (c == 'r' or s[i + 1] == 'r'):
                k = j
                while k < n and s[k] == '#':
                    k += 1
                if k < n and s[k] == '"':
                    hashes = s[j:k]
                    e = s.find('"' + hashes, k + 1)
                    if e < 0:
                        raise ExtractError('unterminated raw string')
                    e += 1 + len(hashes)
                    toks.append(Tok('str', s[i:e], i, e)); i = e; continue
                if c == 'r' and k == j + 1 and k < n and _is_ident_start(s[k]):
                    # raw identifier r#name
                    e = k
                    while e < n and _is_ident_cont(s[e]):
                        e += 1
                    toks.append(Tok('ident', s[i:e], i, e)); i = e; continue
            elif j > i and s[j] == '"':
                e = _scan_string(s, j)
                toks.append(Tok('str', s[i:e], i, e)); i = e; continue
            elif j > i and s[j] == "'":
                e = _scan_char(s, j)
                if e is not None:
                    toks.append(Tok('char', s[i:e], i, e)); i = e; continue
        if c == '"':
            e = _scan_string(s, i)
            toks.append(Tok('str', s[i:e], i, e)); i = e; continue
        if c == "'":
            e = _scan_char(s, i)
            if e is not None:
                toks.append(Tok('char', s[i:e], i, e)); i = e; continue
            # lifetime / label
            j = i + 1
            while j < n and _is_ident_cont(s[j]):
                j += 1
            toks.append(Tok('lifetime', s[i:j], i, j)); i = j; continue
        if _is_ident_start(c):
            j = i + 1
            while j < n and _is_ident_cont(s[j]):
                j += 1
            toks.append(Tok('ident', s[i:j], i, j)); i = j; continue
        if c.isdigit():
            j = i + 1
            while j < n and (_is_ident_cont(s[j]) or (s[j] == '.' and j + 1 < n and s[j + 1].isdigit() and not s.startswith('..', j))):
                j += 1
            toks.append(Tok('num', s[i:j], i, j)); i = j; continue
        # punctuation: multi-char operators that matter for structure
        for op in ('..=', '...', '<<=', '>>=', '->', '=>', '::', '..', '==', '!=', '<=', '>=', '&&', '||', '+=', '-=', '*=', '/=', '%=', '^=', '&=', '|=', '<<', '>>'):
            if s.startswith(op, i):
                toks.append(Tok('punct', op, i, i + len(op))); i += len(op); break
        else:
            toks.append(Tok('punct', c, i, i + 1)); i += 1
    return toks


def _scan_string(s, i):
    """s[i] == '"'; return index one past the closing quote."""
    j = i + 1
    n = len(s)
    while j < n and s[j] != '"':
        if s[j] == '\\':
            j += 1
        j += 1
    if j >= n:
        raise ExtractError('unterminated string literal')
    return j + 1


def _scan_char(s, i):
    """s[i] == "'"; return end index if this is a char literal, else None (lifetime)."""
    n = len(s)
    if i + 1 >= n:
        return None
    if s[i + 1] == '\\':
        j = i + 2
        # escape: \n \' \\ \x41 \u{..}
        if j < n and s[j] == 'u' and j + 1 < n and s[j + 1] == '{':
            k = s.find('}', j)
            if k < 0:
                return None
            j = k + 1
        elif j < n and s[j] == 'x':
            j += 3
        else:
            j += 1
        if j < n and s[j] == "'":
            return j + 1
        return None
    # single (possibly multi-byte) char followed by closing quote
    if i + 2 < n and s[i + 2] == "'" and s[i + 1] != "'":
        return i + 3
    return None


OPEN = {'(': ')', '[': ']', '{': '}'}
CLOSE = {')': '(', ']': '[', '}': '{'}


class RustFile:
    def __init__(self, path, text=None):
        self.path = path
        self.text = open(path, encoding='utf-8').read() if text is None else text
        self.toks = lex(self.text)
        # code tokens = not ws / comments (doc comments are also dropped)
        self.code = [k for k, t in enumerate(self.toks) if t.kind not in ('ws', 'lcomment', 'bcomment', 'doc')]
        self._match = {}
        stack = []
        for ci, k in enumerate(self.code):
            t = self.toks[k]
            if t.kind != 'punct':
                continue
            if t.text in OPEN:
                stack.append(ci)
            elif t.text in CLOSE:
                if not stack or self.toks[self.code[stack[-1]]].text != CLOSE[t.text]:
                    raise ExtractError(f'{path}: unbalanced delimiter at offset {t.start}')
                o = stack.pop()
                self._match[o] = ci
                self._match[ci] = o
        if stack:
            raise ExtractError(f'{path}: unclosed delimiter')
        self._line_starts = [0]
        for i, ch in enumerate(self.text):
            if ch == '\n':
                self._line_starts.append(i + 1)

    # -- helpers over code-token indices ------------------------------------------------------
    def ct(self, ci):
        return self.toks[self.code[ci]]

    def line_of(self, off):
        return bisect.bisect_right(self._line_starts, off)

    def match(self, ci):
        return self._match[ci]

    def skip_group(self, ci):
        """if code token ci opens a group, return index after its close; else ci+1"""
        t = self.ct(ci)
        if t.kind == 'punct' and t.text in OPEN:
            return self._match[ci] + 1
        return ci + 1

    def joined(self, a, b):
        return ''.join(self.ct(i).text for i in range(a, b))

    def spaced(self, a, b):
        """source text between code tokens a (incl) and b (excl), comments removed, whitespace kept"""
        if a >= b:
            return ''
        out = []
        for k in range(self.code[a], self.code[b - 1] + 1):
            t = self.toks[k]
            if t.kind in ('lcomment', 'bcomment', 'doc'):
                continue
            out.append(t.text)
        return ''.join(out)

    # -- item location -------------------------------------------------------------------------
    ITEM_KW = ('struct', 'enum', 'trait', 'impl', 'fn', 'mod', 'const', 'static', 'type', 'union', 'use', 'macro_rules')

    def items(self, lo=0, hi=None):
        """Yield Item objects for the items directly inside code-token range [lo, hi)."""
        hi = len(self.code) if hi is None else hi
        ci = lo
        while ci < hi:
            start = ci
            attrs = []
            # outer attributes
            while ci < hi and self.ct(ci).text == '#' and self.ct(ci + 1).text in ('[', '!'):
                j = ci + 1
                if self.ct(j).text == '!':
                    j += 1
                e = self._match[j]
                attrs.append((ci, e + 1))
                ci = e + 1
            hdr = ci
            # visibility and qualifiers
            while ci < hi:
                t = self.ct(ci)
                if t.text == 'pub':
                    ci += 1
                    if ci < hi and self.ct(ci).text == '(':
                        ci = self._match[ci] + 1
                    continue
                if t.text in ('unsafe', 'async', 'default', 'extern') or (t.text == 'const' and self.ct(ci + 1).text in ('fn', 'unsafe', 'async', 'extern')):
                    ci += 1
                    if t.text == 'extern' and self.ct(ci).kind == 'str':
                        ci += 1
                    continue
                break
            if ci >= hi:
                break
            kw = self.ct(ci).text
            if kw not in self.ITEM_KW:
                # macro invocation item or something else: skip to ; or matching brace
                j = ci
                while j < hi and self.ct(j).text not in (';', '{'):
                    j = self.skip_group(j) if self.ct(j).text in ('(', '[') else j + 1
                if j < hi and self.ct(j).text == '{':
                    j = self._match[j]
                    if j + 1 < hi and self.ct(j + 1).text == ';':
                        j += 1
                yield Item(self, 'other', '', start, hdr, ci, None, j + 1, attrs)
                ci = j + 1
                continue
            kwi = ci
            # find end: first ';' or '{' at depth 0 (skipping (), [] groups and <> is irrelevant)
            j = ci + 1
            while j < hi and self.ct(j).text not in (';', '{'):
                if self.ct(j).text in ('(', '['):
                    j = self._match[j] + 1
                else:
                    j += 1
            if j >= hi:
                raise ExtractError(f'{self.path}: item without end near line {self.line_of(self.ct(ci).start)}')
            body = None
            if self.ct(j).text == '{':
                body = (j, self._match[j])
                end = self._match[j] + 1
                # `struct X {..}` has no trailing ';' ; `struct X(..);` handled by ';' branch
            else:
                end = j + 1
            hdr_end = j
            # header text for matching: from kw through just before where/{/;/( for fn
            yield Item(self, kw, None, start, hdr, kwi, body, end, attrs, hdr_end)
            ci = end

    def find_item(self, selector, lo=0, hi=None):
        """selector: e.g. 'struct Span', 'impl Pattern for Invert', 'fn run_on_chunk', 'trait Pattern'.
        Matches the header tokens (from the keyword) joined without whitespace, cut before the first
        of '{' ';' 'where' and - for fn - before '(' or '<'; for struct/enum/trait before '<' ':' '('."""
        want = ''.join(selector.split())
        found = [it for it in self.items(lo, hi) if it.kw != 'other' and it.header_key() == want]
        return found

    def get_item(self, selector, lo=0, hi=None, nth=None, cfg_not=None):
        found = self.find_item(selector, lo, hi)
        if cfg_not is not None:
            found = [it for it in found if not it.has_attr_text(cfg_not)]
        if nth is not None:
            if nth >= len(found):
                raise ExtractError(f'{self.path}: item "{selector}" #{nth} not found')
            return found[nth]
        if len(found) != 1:
            raise ExtractError(f'{self.path}: item "{selector}" found {len(found)} times (want exactly 1)')
        return found[0]


class Item:
    def __init__(self, rf, kw, name, start, hdr, kwi, body, end, attrs, hdr_end=None):
        self.rf = rf; self.kw = kw; self.start = start; self.hdr = hdr; self.kwi = kwi
        self.body = body; self.end = end; self.attrs = attrs; self.hdr_end = hdr_end

    def header_key(self):
        rf = self.rf
        out = []
        j = self.kwi
        stop_extra = {'fn': ('(', '<'), 'struct': ('<', '(', ':'), 'enum': ('<', ':'), 'trait': ('<', ':'),
                      'mod': (), 'impl': (), 'const': (':',), 'static': (':',), 'type': ('<', '=')}.get(self.kw, ())
        first = True
        while j < self.hdr_end:
            t = rf.ct(j).text
            if t == 'where':
                break
            if not first and t in stop_extra:
                break
            out.append(t)
            first = False
            j += 1
        return ''.join(out)

    def has_attr_text(self, needle):
        n = ''.join(needle.split())
        return any(n in self.rf.joined(a, b) for a, b in self.attrs)

    def attr_texts(self):
        return [self.rf.spaced(a, b) for a, b in self.attrs]

    def line(self):
        return self.rf.line_of(self.rf.ct(self.kwi).start)

    def raw_text(self):
        """exact source text of the item incl. attributes (for hashing)"""
        a = self.rf.ct(self.start).start
        b = self.rf.ct(self.end - 1).end
        return self.rf.text[a:b]

    def inner(self, selector, **kw):
        if self.body is None:
            raise ExtractError('item has no body')
        return self.rf.get_item(selector, self.body[0] + 1, self.body[1], **kw)

    def inner_items(self):
        return list(self.rf.items(self.body[0] + 1, self.body[1]))
