#!/usr/bin/env python3
"""dev helper: build one unit from /repo (or $VX_REPO) and run Verus on it; prints failures."""
import sys, os, importlib
sys.path.insert(0, os.path.dirname(os.path.dirname(os.path.abspath(__file__))))
from vx import verusrun, driver
u = sys.argv[1]
mod = importlib.import_module(f'contracts.units.{u}')
U = mod.build(os.environ.get('VX_REPO', '/repo'))
text = U.render()
res = verusrun.run_unit(U, text, extra_args=[])
print('file', res.path, 'verified', res.verified, 'errors', res.errors, 'ok', res.ok, 'undecided', res.undecided, 'wall', round(res.wall_s, 1))
for f in res.failures:
    print('---', f['piece'], driver.obligation_id(u, f)); print(f['rendered'][:1500])
from contracts import trusted
for h in driver.scan_trusted(text):
    if not any(h.startswith(l) or l in h for l in trusted.TRUSTED): print('UNLISTED', h)
