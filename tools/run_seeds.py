#!/usr/bin/env python3
"""Run every stored seeded change against the check of the property it breaks (and optionally others).
Applies seeded/<id>/patch.diff to /repo, runs ./check <property> --tier <tier>, reverts /repo.
Writes seeded/<id>/meta.json and seeded/RESULTS.md."""
import json, os, re, shutil, subprocess, sys, time
ROOT = os.environ.get('VERIF_ROOT') or '/verif'
REPO = os.environ.get('VERIF_REPO') or '/repo'
# evidence files are rewritten by every check run: keep the clean-tree ones (evidence_backup) and put them back at the end
if os.path.isdir(f'{ROOT}/evidence'):
    shutil.rmtree(f'/tmp/evidence_backup{os.getpid()}', ignore_errors=True); shutil.copytree(f'{ROOT}/evidence', f'/tmp/evidence_backup{os.getpid()}')
tier = sys.argv[1] if len(sys.argv) > 1 else 'quick'
only = sys.argv[2:]  # optional seed ids
rows = []
for sid in sorted(os.listdir(f'{ROOT}/seeded')):
    d = f'{ROOT}/seeded/{sid}'
    if not os.path.isdir(d) or not os.path.exists(f'{d}/patch.diff'):
        continue
    if only and sid not in only:
        continue
    pid = sid.split('-')[0]
    assert subprocess.run(['git', '-C', REPO, 'diff', '--quiet']).returncode == 0, '/repo not clean'
    ap = subprocess.run(['git', '-C', REPO, 'apply', f'{d}/patch.diff'], capture_output=True, text=True)
    if ap.returncode != 0:
        rows.append((sid, pid, 'patch does not apply to current /repo HEAD', '', 0)); continue
    t0 = time.time()
    try:
        p = subprocess.run(['./check', pid, '--tier', tier], cwd=ROOT, capture_output=True, text=True, timeout=3600)
        out, rc = p.stdout + p.stderr, p.returncode
    finally:
        subprocess.run(['git', '-C', REPO, 'checkout', '--', '.'])
    wall = round(time.time() - t0)
    viol = re.findall(r'^VIOLATION .*$', out, re.M)
    obl = re.findall(r'failed obligation (\S+)', out)
    agent = {}
    if os.path.exists(f'{d}/agent_meta.json'):
        try: agent = json.load(open(f'{d}/agent_meta.json'))
        except Exception: agent = {}
    confirmed = 'CONFIRMED' in open(f'{d}/confirm.log').read() and 'NOT CONFIRMED' not in open(f'{d}/confirm.log').read().splitlines()[-1] if os.path.exists(f'{d}/confirm.log') else False
    meta = {
        'seed': sid, 'breaks_property': pid,
        'files_changed': agent.get('files_changed'), 'what_breaks': agent.get('what_breaks'), 'needs_to_manifest': agent.get('needs_to_manifest'),
        'origin': 'written by a fresh sub-agent that saw only the property text and a scratch worktree of /repo (nothing from /verif)',
        'confirmed_by_me': confirmed,
        'what_i_ran': ['tools/confirm_seed.sh (scratch worktree): patch applies; cargo test --offline --workspace --no-fail-fast green with the patch; demonstration fails with the patch, passes without (see confirm.log)',
                       f'tools/run_seeds.py {tier}: git -C /repo apply patch.diff; ./check {pid} --tier {tier}; git -C /repo checkout -- .'],
        'check_result': {'tier': tier, 'exit_code': rc, 'violation_lines': viol, 'failed_obligations': sorted(set(obl)), 'wall_s': wall},
        'detected': rc == 1 and bool(viol),
    }
    json.dump(meta, open(f'{d}/meta.json', 'w'), indent=1)
    rows.append((sid, pid, 'DETECTED' if meta['detected'] else ('undecided (exit 2)' if rc == 2 else 'MISSED (exit 0)'), ', '.join(sorted(set(obl)))[:160], wall))
    print(rows[-1], flush=True)
# rebuild the table from every meta.json (so partial re-runs keep the other rows)
allrows = []
for sid in sorted(os.listdir(f'{ROOT}/seeded')):
    mp = f'{ROOT}/seeded/{sid}/meta.json'
    if os.path.exists(mp):
        m = json.load(open(mp)); cr = m['check_result']
        res = 'DETECTED' if m['detected'] else ('undecided (exit 2)' if cr['exit_code'] == 2 else 'MISSED (exit 0)')
        allrows.append((sid, m['breaks_property'], res, ', '.join(cr['failed_obligations'])[:200], cr['wall_s'], (m.get('needs_to_manifest') or '')[:160].replace('|', '/').replace('\n', ' ')))
with open(f'{ROOT}/seeded/RESULTS.md', 'w') as f:
    f.write('# Seeded changes vs. checks\n\nEach seed was written by a fresh sub-agent that saw only the property text and a scratch worktree; confirmed by tools/confirm_seed.sh; run by tools/run_seeds.py.\n\n| seed | property | result | failed obligations | wall s | needs to manifest |\n|---|---|---|---|---|---|\n')
    for r in allrows:
        f.write('| ' + ' | '.join(str(x) for x in r) + ' |\n')

if os.path.isdir(f'/tmp/evidence_backup{os.getpid()}'):
    shutil.rmtree(f'{ROOT}/evidence', ignore_errors=True); shutil.copytree(f'/tmp/evidence_backup{os.getpid()}', f'{ROOT}/evidence')
