#!/bin/bash
# usage: tools/confirm_seed_append.sh <worktree> <seed-dir> <seed-id> <demo-file> <source-file-to-append-to (relative)> <crate> <test-name-filter>
# Like confirm_seed.sh, for binary-only crates: the demonstration is a #[cfg(test)] module that is APPENDED to a source file.
set -u
wt="$1"; sd="$2"; id="$3"; demo="$4"; dest="$5"; crate="$6"; filt="$7"
out=/verif/seeded/$id; mkdir -p "$out"
export RUSTUP_TOOLCHAIN=stable-x86_64-unknown-linux-gnu CARGO_NET_OFFLINE=true CARGO_TARGET_DIR="$wt/target"
cd "$wt" || exit 3
git checkout -q -- .
log="$out/confirm.log"; : > "$log"
git apply "$sd/patch.diff" || { echo "PATCH DOES NOT APPLY" | tee -a "$log"; exit 3; }
echo "== workspace tests WITH patch" >> "$log"
cargo test --offline --workspace --no-fail-fast > "$out/.suite.txt" 2>&1; src=$?
grep "test result" "$out/.suite.txt" | awk '{p+=$4; f+=$6} END {print "suite passed="p" failed="f}' >> "$log"; echo "suite rc=$src" >> "$log"
cat "$sd/$demo" >> "$wt/$dest"
echo "== demo WITH patch (must fail)" >> "$log"
timeout 900 cargo test --offline -p "$crate" "$filt" > "$out/.demo_with.txt" 2>&1; d1=$?
grep "test result\|^test " "$out/.demo_with.txt" | head -20 >> "$log"; echo "demo-with rc=$d1" >> "$log"
git checkout -q -- .
cat "$sd/$demo" >> "$wt/$dest"
echo "== demo WITHOUT patch (must pass)" >> "$log"
timeout 900 cargo test --offline -p "$crate" "$filt" > "$out/.demo_without.txt" 2>&1; d2=$?
grep "test result\|^test " "$out/.demo_without.txt" | head -20 >> "$log"; echo "demo-without rc=$d2" >> "$log"
git checkout -q -- .
cp "$sd/patch.diff" "$out/patch.diff"; cp "$sd/$demo" "$out/$demo"; cp "$sd/meta.json" "$out/agent_meta.json" 2>/dev/null
rm -f "$out"/.suite.txt "$out"/.demo_with.txt "$out"/.demo_without.txt
if [ $src -eq 0 ] && [ $d1 -ne 0 ] && [ $d2 -eq 0 ]; then echo "CONFIRMED $id" | tee -a "$log"; else echo "NOT CONFIRMED $id (suite=$src with=$d1 without=$d2)" | tee -a "$log"; fi
