#!/bin/bash
# usage: tools/try_seed.sh <patch.diff> <property-id> [tier]   -- applies the patch to /repo, runs the check, reverts.
set -u
patch="$1"; pid="$2"; tier="${3:-quick}"
cd /repo || exit 3
if ! git diff --quiet; then echo "/repo not clean"; exit 3; fi
git apply "$patch" || { echo "patch does not apply"; exit 3; }
cd /verif && ./check "$pid" --tier "$tier"; rc=$?
git -C /repo checkout -- .
echo "check exit code: $rc"
exit $rc
