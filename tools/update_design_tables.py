#!/usr/bin/env python3
"""Copies seeded/RESULTS.md and seeded/benign/RESULTS.md into DESIGN.md between the SEEDS markers."""
import re
d = open('/verif/DESIGN.md').read()
seeds = open('/verif/seeded/RESULTS.md').read().split('\n\n', 2)[-1].strip()
benign = open('/verif/seeded/benign/RESULTS.md').read().split('\n\n', 1)[-1].strip()
block = ('<!-- SEEDS:BEGIN -->\n**Property-breaking changes** (exit 1 + VIOLATION = detected):\n\n' + seeds +
         '\n\n**Behaviour-preserving refactorings** written by two further sub-agents (exit 0 = still proved, 2 = undecided, 1 would be a false alarm):\n\n' + benign + '\n<!-- SEEDS:END -->')
d = re.sub(r'<!-- SEEDS:BEGIN -->.*?<!-- SEEDS:END -->', lambda m: block, d, flags=re.S)
open('/verif/DESIGN.md', 'w').write(d)
print('DESIGN.md tables updated')
