#!/usr/bin/env python3
"""Behaviour-preserving refactorings (written by sub-agents that saw nothing of /verif) vs. the checks:
a check may answer 0 (still proved) or 2 (undecided) but must never raise an alarm (exit 1)."""
import json, os, re, shutil, subprocess, sys, time
ROOT = os.environ.get('VERIF_ROOT') or '/verif'
REPO = os.environ.get('VERIF_REPO') or '/repo'
# evidence files are rewritten by every check run: keep the clean-tree ones (evidence_backup) and put them back at the end
if os.path.isdir(f'{ROOT}/evidence'):
    shutil.rmtree(f'/tmp/evidence_backup{os.getpid()}', ignore_errors=True); shutil.copytree(f'{ROOT}/evidence', f'/tmp/evidence_backup{os.getpid()}')
PROPS = {'vec_ext': ['C13', 'C02'], 'suggestion.rs': ['C03'], 'lib.rs': ['C13'], 'lexing': ['C01', 'C02'], 'plain_english': ['C01', 'C02'], 'edit_distance': ['C15', 'C01'], 'span.rs': ['C01', 'C03'],
         'number.rs': ['C17', 'C02'], 'patterns': ['C01', 'C03'], 'pattern_linter': ['C01', 'C03'], 'document.rs': ['C02', 'C01'], 'merged_dictionary': ['C15'], 'mask': ['C02', 'C01'],
         'pos_conv': ['C08'], 'jsdoc': ['C01', 'C04'], 'javadoc': ['C04', 'C01'], 'git_commit_parser': ['C04', 'C01'], 'harper-html': ['C04', 'C01'], 'currency.rs': ['C02', 'C13', 'C01'], 'correct_number_suffix': ['C17', 'C03'], 'mutable_dictionary': ['C15'],
         'diagnostics.rs': ['C08'], 'ellipsis_length': ['C03'], 'document_state': ['C08'],
         'lint_group.rs': ['C11', 'C03', 'C12'], 'ignored_lints': ['C14', 'C16'], 'title_case': ['C18'], 'harper-stats': ['C19'], 'harper-wasm': ['C16', 'C11'], 'spell_check': ['C06', 'C03'], 'parsers/mask.rs': ['C04'], 'mask/mod.rs': ['C04'], 'go.rs': ['C04', 'C01'], 'unit.rs': ['C04', 'C01'],
         'harper-tree-sitter': ['C04', 'C01'], 'long_sentences': ['C03', 'C12'], 'an_a': ['C03', 'C11'], 'dictionary.dict': ['C06', 'C15'], 'phrase_corrections': ['C11', 'C03', 'C12'], 'harper-literate-haskell': ['C04', 'C01']}
only = sys.argv[1:]
rows = []
base = f'{ROOT}/seeded/benign'
for rid in sorted(os.listdir(base)):
    d = f'{base}/{rid}'
    if not os.path.isdir(d) or (only and rid not in only):
        continue
    patch = open(f'{d}/patch.diff').read()
    files = re.findall(r'^\+\+\+ b/(\S+)', patch, re.M)
    props = []
    for f in files:
        for key, ps in PROPS.items():
            if key in f:
                props += [p for p in ps if p not in props]
    assert subprocess.run(['git', '-C', REPO, 'diff', '--quiet']).returncode == 0, '/repo not clean'
    if subprocess.run(['git', '-C', REPO, 'apply', f'{d}/patch.diff']).returncode != 0:
        rows.append((rid, ','.join(files), 'patch does not apply', '')); continue
    res = {}
    try:
        for p in props:
            r = subprocess.run(['./check', p], cwd=ROOT, capture_output=True, text=True, timeout=3600)
            res[p] = {'exit': r.returncode, 'lines': [l for l in (r.stdout + r.stderr).splitlines() if l.startswith(('VIOLATION', 'UNDECIDED', '  failed', 'OK '))][:6]}
    finally:
        subprocess.run(['git', '-C', REPO, 'checkout', '--', '.'])
    json.dump({'refactoring': rid, 'files': files, 'results': res}, open(f'{d}/result.json', 'w'), indent=1)
    rows.append((rid, ','.join(files), ' '.join(f'{p}:{v["exit"]}' for p, v in res.items()), 'FALSE ALARM' if any(v['exit'] == 1 for v in res.values()) else 'ok'))
    print(rows[-1], flush=True)
allrows = []
for rid in sorted(os.listdir(base)):
    rp = f'{base}/{rid}/result.json'
    if os.path.exists(rp):
        r = json.load(open(rp))
        allrows.append((rid, ', '.join(r['files']), ' '.join(f'{p}:{v["exit"]}' for p, v in r['results'].items()), 'FALSE ALARM' if any(v['exit'] == 1 for v in r['results'].values()) else 'no alarm'))
with open(f'{base}/RESULTS.md', 'w') as f:
    f.write('# Behaviour-preserving refactorings vs. checks (exit 0 = still proved, 2 = undecided, 1 = false alarm)\n\n| refactoring | files | check exits | verdict |\n|---|---|---|---|\n')
    for r in allrows:
        f.write('| ' + ' | '.join(r) + ' |\n')

if os.path.isdir(f'/tmp/evidence_backup{os.getpid()}'):
    shutil.rmtree(f'{ROOT}/evidence', ignore_errors=True); shutil.copytree(f'/tmp/evidence_backup{os.getpid()}', f'{ROOT}/evidence')
