// Kani harnesses for harper-comments/src/comment_parsers/jsdoc.rs (attached to that module).
// BOUNDED: every token sequence of length 0..=N over {'{', '}', '@', Word, Space, Unlintable}.
// A terminating run of parse_inline_tag needs at most len+1 loop iterations, so with unwind(N+4) a
// failed unwinding assertion means the scan ran past the end of the slice (non-termination), not a
// too-small bound.

fn any_tok(i: usize) -> Token {
    let k: u8 = kani::any();
    kani::assume(k < 6);
    let kind = match k {
        0 => TokenKind::Punctuation(Punctuation::OpenCurly),
        1 => TokenKind::Punctuation(Punctuation::CloseCurly),
        2 => TokenKind::Punctuation(Punctuation::At),
        3 => TokenKind::Word(None),
        4 => TokenKind::Space(1),
        _ => TokenKind::Unlintable,
    };
    Token::new(Span::new(i, i + 1), kind)
}

fn check_parse_inline_tag(toks: &[Token]) {
    let len: usize = kani::any();
    kani::assume(len <= toks.len());
    let r = parse_inline_tag(&toks[..len]);
    if let Some(p) = r {
        // the tag ends inside the slice
        assert!(p >= 1 && p <= len);
    }
    kani::cover!(r.is_some());
    kani::cover!(r.is_none() && len >= 4);
}

// (a harness for mark_inline_tags makes kani-compiler 0.68 panic in codegen: 'unable to find field 0 for type StructTag';
// the function is therefore listed as unverified)

#[kani::proof]
#[kani::unwind(8)]
fn parse_inline_tag_4() {
    let toks = [any_tok(0), any_tok(1), any_tok(2), any_tok(3)];
    check_parse_inline_tag(&toks)
}
#[kani::proof]
#[kani::unwind(9)]
fn parse_inline_tag_5() {
    let toks = [any_tok(0), any_tok(1), any_tok(2), any_tok(3), any_tok(4)];
    check_parse_inline_tag(&toks)
}
#[kani::proof]
#[kani::unwind(10)]
fn parse_inline_tag_6() {
    let toks = [any_tok(0), any_tok(1), any_tok(2), any_tok(3), any_tok(4), any_tok(5)];
    check_parse_inline_tag(&toks)
}
