// Kani harnesses for harper-comments/src/comment_parsers/jsdoc.rs (attached to that module).
// BOUNDED: every token sequence of length 0..=N over {'{', '}', '@', Word, Space, Unlintable}.
// A terminating run of parse_inline_tag needs at most len+1 loop iterations, so with unwind(N+4) a
// failed unwinding assertion means the scan ran past the end of the slice (non-termination), not a
// too-small bound.

fn any_tok(i: usize) -> Token {
    let k: u8 = kani::any();
    kani::assume(k < 6);
    let kind = match k {
        0 => TokenKind::Punctuation(Punctuation::OpenCurly),
        1 => TokenKind::Punctuation(Punctuation::CloseCurly),
        2 => TokenKind::Punctuation(Punctuation::At),
        3 => TokenKind::Word(None),
        4 => TokenKind::Space(1),
        _ => TokenKind::Unlintable,
    };
    Token::new(Span::new(i, i + 1), kind)
}

fn check_parse_inline_tag<const N: usize>() {
    let toks: [Token; N] = core::array::from_fn(any_tok);
    let len: usize = kani::any();
    kani::assume(len <= N);
    let r = parse_inline_tag(&toks[..len]);
    if let Some(p) = r {
        // the tag ends inside the slice, on a closing curly
        assert!(p >= 4 && p <= len);
        assert!(matches!(toks[p - 1].kind, TokenKind::Punctuation(Punctuation::CloseCurly)));
    }
    kani::cover!(r.is_some());
    kani::cover!(r.is_none() && len >= 4);
}

fn check_mark_inline_tags<const N: usize>() {
    let mut toks: [Token; N] = core::array::from_fn(any_tok);
    let len: usize = kani::any();
    kani::assume(len <= N);
    mark_inline_tags(&mut toks[..len]);
    // spans are untouched
    let j: usize = kani::any();
    kani::assume(j < len);
    assert!(toks[j].span.start == j && toks[j].span.end == j + 1);
    kani::cover!(len == N);
}

#[kani::proof]
#[kani::unwind(8)]
fn parse_inline_tag_4() { check_parse_inline_tag::<4>() }
#[kani::proof]
#[kani::unwind(9)]
fn parse_inline_tag_5() { check_parse_inline_tag::<5>() }
#[kani::proof]
#[kani::unwind(10)]
fn parse_inline_tag_6() { check_parse_inline_tag::<6>() }
#[kani::proof]
#[kani::unwind(9)]
fn mark_inline_tags_5() { check_mark_inline_tags::<5>() }
