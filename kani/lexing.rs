// Kani harnesses for harper-core/src/lexing/mod.rs (attached to that module). BOUNDED: every [char]
// of length 0..=N with fully symbolic chars. They check the `found_ok` contract that the Verus unit
// `lexing` assumes for the sub-lexers written with take_while().count(), plus the lexical shape
// of the Space/Newline tokens (C02).

fn any_text<const N: usize>() -> ([char; N], usize) {
    let a: [char; N] = kani::any();
    let len: usize = kani::any();
    kani::assume(len <= N);
    (a, len)
}

fn found_ok(len: usize, r: &Option<FoundToken>) -> bool {
    match r {
        Some(f) => 1 <= f.next_index && f.next_index <= len,
        None => true,
    }
}

fn check_whitespace<const N: usize>() {
    let (a, len) = any_text::<N>();
    let src = &a[..len];

    // C02: "a space token [covers] only blanks" - nothing more is demanded (how many blanks one token
    // takes, or which count it records for a tab, is the lexer's business)
    let s = lex_spaces(src);
    assert!(found_ok(len, &s));
    if let Some(f) = &s {
        assert!(matches!(f.token, TokenKind::Space(_)));
        let k: usize = kani::any();
        kani::assume(k < f.next_index);
        assert!(src[k] == ' ');
    }

    let t = lex_tabs(src);
    assert!(found_ok(len, &t));
    if let Some(f) = &t {
        assert!(matches!(f.token, TokenKind::Space(_)));
        let k: usize = kani::any();
        kani::assume(k < f.next_index);
        assert!(src[k] == '\t');
    }

    let n = lex_newlines(src);
    assert!(found_ok(len, &n));
    if let Some(f) = &n {
        assert!(matches!(f.token, TokenKind::Newline(_)));
        let k: usize = kani::any();
        kani::assume(k < f.next_index);
        assert!(src[k] == '\n');
    }
    kani::cover!(s.is_some());
    kani::cover!(t.is_some());
    kani::cover!(n.is_some());
}

fn check_hex<const N: usize>() {
    let (a, len) = any_text::<N>();
    let src = &a[..len];
    let r = lex_hex_number(src);
    assert!(found_ok(len, &r));
    if let Some(f) = &r {
        // "0x" + hex digits, ending at a non-alphanumeric char or the end of input
        assert!(f.next_index >= 3 && src[0] == '0' && src[1] == 'x');
        let k: usize = kani::any();
        kani::assume(2 <= k && k < f.next_index);
        assert!(src[k].is_ascii_hexdigit());
        assert!(matches!(f.token, TokenKind::Number(_)));
    }
    kani::cover!(r.is_some());
}

fn check_hostname<const N: usize>() {
    let (a, len) = any_text::<N>();
    let src = &a[..len];
    let r = lex_hostname_token(src);
    assert!(found_ok(len, &r));
    kani::cover!(r.is_some());
}

fn check_url<const N: usize>() {
    let (a, len) = any_text::<N>();
    let src = &a[..len];
    let r = lex_url(src);
    assert!(found_ok(len, &r));
}

fn check_email<const N: usize>() {
    let (a, len) = any_text::<N>();
    let src = &a[..len];
    let r = lex_email_address(src);
    assert!(found_ok(len, &r));
}

#[kani::proof]
#[kani::unwind(7)]
fn whitespace_5() { check_whitespace::<5>() }
#[kani::proof]
#[kani::unwind(10)]
fn whitespace_8() { check_whitespace::<8>() }
// (hex_4: 'unwinding bound too small' even at unwind 12 because of String/from_str_radix internals, hex_5: > 12 min and 16 GB;
//  email_4: CBMC timed out after 40 min. Both were dropped; lex_hex_number / lex_email_address stay ASSUMED in unit lexing.)
#[kani::proof]
#[kani::unwind(7)]
fn hostname_4() { check_hostname::<4>() }
#[kani::proof]
#[kani::unwind(7)]
fn url_4() { check_url::<4>() }

// (a harness for lex_number - str::parse::<f64> on symbolic text - does not finish: CBMC timed out after 20 min at
// length 2; lex_number's found_ok contract stays ASSUMED, see DESIGN 6.4)
