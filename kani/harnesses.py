"""Registry of Kani harnesses. kind: 'complete' = loop-free over the full input domain (counts as a
discharged obligation); 'bounded' = unwinding bound / fixed lengths (reported under coverage.bounded,
never counted as proved)."""
CORE = 'harper-core'

HARNESSES = {
    'number.suffix_full_domain': dict(
        crate=CORE, attach='harper-core/src/number.rs', file='number.rs', modpath='number::__verif_kani_number',
        harness='suffix_full_domain', kind='complete', function='NumberSuffix::correct_suffix_for', timeout=1200,
        says='for every integer 0 <= n < 2^53: correct_suffix_for(n as f64) == Some(English ordinal rule(n))'),
    'number.from_chars_roundtrip': dict(
        crate=CORE, attach='harper-core/src/number.rs', file='number.rs', modpath='number::__verif_kani_number',
        harness='from_chars_roundtrip', kind='complete', function='NumberSuffix::from_chars / to_chars', timeout=600,
        says='for all char x char: from_chars accepts exactly the 16 case variants of th/st/nd/rd; to_chars returns the lower-cased pair'),
}

LS = 'harper-ls'
ALPHA = "{LF, CR, 'a', U+4E2D, U+1F600, U+0301, U+200B, U+010A}"


def _pc(name, n, says, **kw):
    d = dict(crate=LS, attach='harper-ls/src/pos_conv.rs', file='pos_conv.rs', modpath='pos_conv::__verif_kani_pos_conv',
             harness=f'{name}_{n}', kind='bounded', bound=f'all texts of length 0..={n} over {ALPHA}, every index/span',
             function='pos_conv::' + kw.pop('function'), says=says, timeout=kw.pop('timeout', 1500),
             # texts of length l over 8 symbols, times (l+1) indices
             input_states=sum(8 ** l * (l + 1) for l in range(n + 1)))
    d.update(kw)
    return d


for _n in (3, 4, 5):
    HARNESSES[f'pos_conv.index_to_position_ref_{_n}'] = _pc('index_to_position_ref', _n, 'index_to_position == (number of LF before i, UTF-16 units since the last LF)', function='index_to_position')
    HARNESSES[f'pos_conv.roundtrip_inner_{_n}'] = _pc('roundtrip_inner', _n, 'position_to_index(index_to_position(i)) == i for every i on an LF-terminated line', function='position_to_index')
for _n in (3, 4):
    HARNESSES[f'pos_conv.span_to_range_ref_{_n}'] = _pc('span_to_range_ref', _n, 'span_to_range(s) == (reference position of s.start, reference position of s.end)', function='span_to_range')
    HARNESSES[f'pos_conv.roundtrip_single_line_{_n}'] = _pc('roundtrip_single_line', _n, 'round trip for texts without LF', function='position_to_index')
    HARNESSES[f'pos_conv.span_roundtrip_inner_{_n}'] = _pc('span_roundtrip_inner', _n, 'range_to_span(span_to_range(s)) == s and ranges are ordered, for spans ending on an LF-terminated line', function='range_to_span')
HARNESSES['pos_conv.roundtrip_final_line_3'] = _pc('roundtrip_final_line', 3, 'round trip for i on the final line of a text containing LF (KNOWN FINDING D4)', function='position_to_index', covers=False)

LEXM = dict(crate=CORE, attach='harper-core/src/lexing/mod.rs', file='lexing.rs', modpath='lexing::__verif_kani_lexing', kind='bounded')
HARNESSES['lexing.whitespace_5'] = dict(LEXM, harness='whitespace_5', function='lex_spaces / lex_tabs / lex_newlines', bound='every [char] of length 0..=5, fully symbolic chars', timeout=900,
    says='found_ok; a Space token covers only blanks (resp. tabs), a Newline token only LF')
HARNESSES['lexing.whitespace_8'] = dict(LEXM, harness='whitespace_8', function='lex_spaces / lex_tabs / lex_newlines', bound='every [char] of length 0..=8, fully symbolic chars', timeout=1800,
    says='found_ok; a Space token covers only blanks (resp. tabs), a Newline token only LF')
HARNESSES['lexing.hostname_4'] = dict(LEXM, harness='hostname_4', function='lex_hostname_token', bound='every [char] of length 0..=4, fully symbolic chars', timeout=1800, says='found_ok')
HARNESSES['lexing.url_4'] = dict(LEXM, harness='url_4', function='lex_url', bound='every [char] of length 0..=4, fully symbolic chars', timeout=2400, says='found_ok', covers=False)
JSD = dict(crate='harper-comments', attach='harper-comments/src/comment_parsers/jsdoc.rs', file='jsdoc.rs', modpath='comment_parsers::jsdoc::__verif_kani_jsdoc', kind='bounded', unwind_is_violation=True)
for _n in (4, 5, 6):
    HARNESSES[f'jsdoc.parse_inline_tag_{_n}'] = dict(JSD, harness=f'parse_inline_tag_{_n}', function='parse_inline_tag', timeout=900,
        bound=f"every token sequence of length 0..={_n} over {{'{{', '}}', '@', Word, Space, Unlintable}}",
        says='terminates within len+1 iterations (unwinding assertion), result p satisfies 1 <= p <= len')
