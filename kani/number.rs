// Kani harnesses for harper-core/src/number.rs (attached to that module: `use super::*`).
// Both are loop-free over the full input domain => complete proofs, not bounded checks.

// Independent statement of the English rule (property C17): 11, 12, 13 and every number ending in
// them take "th"; otherwise the last digit decides.
fn ordinal_rule(n: u64) -> NumberSuffix {
    let h = n % 100;
    if h == 11 || h == 12 || h == 13 {
        return NumberSuffix::Th;
    }
    match n % 10 {
        1 => NumberSuffix::St,
        2 => NumberSuffix::Nd,
        3 => NumberSuffix::Rd,
        _ => NumberSuffix::Th,
    }
}

#[kani::proof]
#[kani::solver(kissat)]
fn suffix_full_domain() {
    let n: u64 = kani::any();
    kani::assume(n < (1u64 << 53));
    let r = NumberSuffix::correct_suffix_for(n as f64);
    assert!(r == Some(ordinal_rule(n)));
    kani::cover!(true);
}

#[kani::proof]
fn from_chars_roundtrip() {
    // all char x char: from_chars accepts exactly the 16 case variants of th/st/nd/rd and to_chars
    // gives back the lower-cased pair
    let a: char = kani::any();
    let b: char = kani::any();
    let r = NumberSuffix::from_chars(&[a, b]);
    let la = a.to_ascii_lowercase();
    let lb = b.to_ascii_lowercase();
    let is_suffix = (la == 't' && lb == 'h') || (la == 's' && lb == 't') || (la == 'n' && lb == 'd') || (la == 'r' && lb == 'd');
    match r {
        Some(s) => {
            let c = s.to_chars();
            assert!(is_suffix);
            assert!(c.len() == 2 && c[0] == la && c[1] == lb);
            assert!((s == NumberSuffix::Th) == (la == 't'));
            assert!((s == NumberSuffix::St) == (la == 's'));
            assert!((s == NumberSuffix::Nd) == (la == 'n'));
            assert!((s == NumberSuffix::Rd) == (la == 'r'));
        }
        None => {
            assert!(!is_suffix);
        }
    }
    kani::cover!(r.is_some());
}
