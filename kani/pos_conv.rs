// Kani harnesses for harper-ls/src/pos_conv.rs (attached to that module). BOUNDED: every text of
// length 0..=N over the alphabet {LF, CR, 'a', U+4E2D (3 UTF-8 bytes, 1 UTF-16 unit), U+1F600 (4 bytes, 2 units), U+0301 (combining, 2 bytes), U+200B (zero width), U+010A (low byte 0x0A)},
// every index / span. N is the const generic of each harness body.

fn any_char() -> char {
    let k: u8 = kani::any();
    kani::assume(k < 8);
    match k {
        0 => '\n',
        1 => '\r',
        2 => 'a',
        3 => '\u{4E2D}',
        4 => '\u{1F600}',
        5 => '\u{0301}',
        6 => '\u{200B}',   // zero-width space: invisible, but one UTF-16 unit like any other BMP character
        _ => '\u{010A}',   // low byte 0x0A: not a line feed
    }
}

// Independent reference: line = number of LF before i, column = UTF-16 units since the last LF.
fn ref_position(src: &[char], i: usize) -> (u32, u32) {
    let mut line = 0u32;
    let mut col = 0u32;
    let mut k = 0;
    while k < i {
        if src[k] == '\n' {
            line += 1;
            col = 0;
        } else {
            col += src[k].len_utf16() as u32;
        }
        k += 1;
    }
    (line, col)
}

fn newline_at_or_after(src: &[char], i: usize) -> bool {
    let mut k = i;
    while k < src.len() {
        if src[k] == '\n' {
            return true;
        }
        k += 1;
    }
    false
}

fn has_newline(src: &[char]) -> bool {
    newline_at_or_after(src, 0)
}

fn text<const N: usize>() -> ([char; N], usize) {
    let mut a = ['a'; N];
    let mut k = 0;
    while k < N {
        a[k] = any_char();
        k += 1;
    }
    let len: usize = kani::any();
    kani::assume(len <= N);
    (a, len)
}

fn check_index_to_position<const N: usize>() {
    let (a, len) = text::<N>();
    let src = &a[..len];
    let i: usize = kani::any();
    kani::assume(i <= len);
    let p = index_to_position(src, i);
    let (l, c) = ref_position(src, i);
    assert!(p.line == l);
    assert!(p.character == c);
    kani::cover!(l > 0 && c > 1);
}

// i lies on a line that is terminated by LF
fn check_roundtrip_inner<const N: usize>() {
    let (a, len) = text::<N>();
    let src = &a[..len];
    let i: usize = kani::any();
    kani::assume(i <= len);
    kani::assume(newline_at_or_after(src, i));
    let p = index_to_position(src, i);
    assert!(position_to_index(src, p) == i);
    kani::cover!(i > 1);
}

// text without any LF: its only line is the final line
fn check_roundtrip_single_line<const N: usize>() {
    let (a, len) = text::<N>();
    let src = &a[..len];
    kani::assume(!has_newline(src));
    let i: usize = kani::any();
    kani::assume(i <= len);
    let p = index_to_position(src, i);
    assert!(position_to_index(src, p) == i);
    kani::cover!(i > 1);
}

// i lies on the final line of a text that contains at least one LF (known finding D4)
fn check_roundtrip_final_line<const N: usize>() {
    let (a, len) = text::<N>();
    let src = &a[..len];
    kani::assume(has_newline(src));
    let i: usize = kani::any();
    kani::assume(i <= len);
    kani::assume(!newline_at_or_after(src, i));
    let p = index_to_position(src, i);
    assert!(position_to_index(src, p) == i);
}

// spans whose two ends both lie on LF-terminated lines survive span -> range -> span
fn check_span_roundtrip_inner<const N: usize>() {
    let (a, len) = text::<N>();
    let src = &a[..len];
    let s: usize = kani::any();
    let e: usize = kani::any();
    kani::assume(s <= e && e <= len);
    kani::assume(newline_at_or_after(src, e));
    let r = span_to_range(src, Span::new(s, e));
    let back = range_to_span(src, r);
    assert!(back.start == s && back.end == e);
    // LSP ranges are ordered
    assert!(r.start.line < r.end.line || (r.start.line == r.end.line && r.start.character <= r.end.character));
    kani::cover!(s < e);
}

// span_to_range is position-wise: both ends equal the reference positions (LSP line / UTF-16 column)
fn check_span_to_range<const N: usize>() {
    let (a, len) = text::<N>();
    let src = &a[..len];
    let s: usize = kani::any();
    let e: usize = kani::any();
    kani::assume(s <= e && e <= len);
    let r = span_to_range(src, Span::new(s, e));
    let (sl, sc) = ref_position(src, s);
    let (el, ec) = ref_position(src, e);
    assert!(r.start.line == sl && r.start.character == sc);
    assert!(r.end.line == el && r.end.character == ec);
    kani::cover!(s < e && ec > 2);
}

#[kani::proof]
#[kani::unwind(5)]
fn span_to_range_ref_3() { check_span_to_range::<3>() }
#[kani::proof]
#[kani::unwind(6)]
fn span_to_range_ref_4() { check_span_to_range::<4>() }
#[kani::proof]
#[kani::unwind(5)]
fn index_to_position_ref_3() { check_index_to_position::<3>() }
#[kani::proof]
#[kani::unwind(5)]
fn roundtrip_inner_3() { check_roundtrip_inner::<3>() }
#[kani::proof]
#[kani::unwind(5)]
fn roundtrip_single_line_3() { check_roundtrip_single_line::<3>() }
#[kani::proof]
#[kani::unwind(5)]
fn roundtrip_final_line_3() { check_roundtrip_final_line::<3>() }
#[kani::proof]
#[kani::unwind(5)]
fn span_roundtrip_inner_3() { check_span_roundtrip_inner::<3>() }

#[kani::proof]
#[kani::unwind(6)]
fn index_to_position_ref_4() { check_index_to_position::<4>() }
#[kani::proof]
#[kani::unwind(6)]
fn roundtrip_inner_4() { check_roundtrip_inner::<4>() }
#[kani::proof]
#[kani::unwind(6)]
fn roundtrip_single_line_4() { check_roundtrip_single_line::<4>() }
#[kani::proof]
#[kani::unwind(6)]
fn span_roundtrip_inner_4() { check_span_roundtrip_inner::<4>() }
#[kani::proof]
#[kani::unwind(7)]
fn roundtrip_inner_5() { check_roundtrip_inner::<5>() }
#[kani::proof]
#[kani::unwind(7)]
fn index_to_position_ref_5() { check_index_to_position::<5>() }
