#!/bin/bash
# Offline setup: nothing is fetched. Warms the Verus cache (vstd import) so the first check is fast.
set -e
cd "$(dirname "$0")"
mkdir -p .cache/vx evidence replays
python3 -c "import sys; sys.path.insert(0,'.'); import vx.rustlex, vx.extract, vx.driver" 
which verus >/dev/null
echo "setup ok"
