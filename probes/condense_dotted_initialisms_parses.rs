use vstd::prelude::*;
use std::collections::VecDeque;
verus! {

#[derive(Clone, Copy, PartialEq, Eq)]
pub struct Span { pub start: usize, pub end: usize }
impl Span {
    pub fn new(start: usize, end: usize) -> (r: Self)
        requires start <= end,
        ensures r.start == start, r.end == end,
    {
        if start > end {
            panic!("{} > {}", start, end);
        }
        Self { start, end }
    }
    pub fn len(&self) -> (r: usize) requires self.start <= self.end ensures r == self.end - self.start { self.end - self.start }
}
#[derive(PartialEq, Eq, Clone)]
pub enum Punctuation { OpenCurly, CloseCurly, At, Period }
#[derive(PartialEq, Eq, Clone)]
pub enum TokenKind { Regexish, Unlintable, Word(Option<u8>), Punctuation(Punctuation), Decade }
impl TokenKind {
    pub fn is_word(&self) -> bool { matches!(self, TokenKind::Word(..)) }
    pub fn is_period(&self) -> bool { matches!(self, TokenKind::Punctuation(Punctuation::Period)) }
}
#[derive(Clone)]
pub struct Token { pub span: Span, pub kind: TokenKind }

pub struct Doc { tokens: Vec<Token> }
pub trait VecExt { fn remove_indices(&mut self, to_remove: VecDeque<usize>); }
impl<T> VecExt for Vec<T> {
    #[verifier::external_body]
    fn remove_indices(&mut self, to_remove: VecDeque<usize>) { unimplemented!() }
}
impl Doc {
    fn condense_dotted_initialisms(&mut self) {
        if self.tokens.len() < 2 {
            return;
        }

        let mut to_remove = VecDeque::new();

        let mut cursor = 1;

        let mut initialism_start = None;

        loop
          invariant 1 <= cursor < self.tokens@.len()
          decreases self.tokens@.len() - cursor
        {
            let a = &self.tokens[cursor - 1];
            let b = &self.tokens[cursor];

            let is_initialism_chunk = a.kind.is_word() && a.span.len() == 1 && b.kind.is_period();

            if is_initialism_chunk {
                if initialism_start.is_none() {
                    initialism_start = Some(cursor - 1);
                } else {
                    to_remove.push_back(cursor - 1);
                }

                to_remove.push_back(cursor);
                cursor += 1;
            } else {
                if let Some(start) = initialism_start {
                    let end = self.tokens[cursor - 2].span.end;
                    let start_tok: &mut Token = &mut self.tokens[start];
                    start_tok.span.end = end;
                }

                initialism_start = None;
            }

            cursor += 1;

            if cursor >= self.tokens.len() - 1 {
                break;
            }
        }

        self.tokens.remove_indices(to_remove);
    }
}
}
fn main() {}
