#![feature(allocator_api)]
use vstd::prelude::*;
use std::alloc::Allocator;
verus! {
pub uninterp spec fn ext_seq<I: IntoIterator>(i: I) -> Seq<I::Item>;
pub assume_specification<T, A: Allocator, I: IntoIterator<Item = T>> [<Vec<T, A> as Extend<T>>::extend] (v: &mut Vec<T, A>, iter: I)
    ensures final(v)@ == old(v)@ + ext_seq(iter);

pub struct Token { pub a: usize }
pub struct Lint { pub a: usize }
pub trait Pattern {
    fn matches(&self, tokens: &[Token], source: &[char]) -> (r: usize)
        ensures r <= tokens@.len();
}
pub trait PatternLinter {
    fn pattern(&self) -> &dyn Pattern;
    fn match_to_lint(&self, matched_tokens: &[Token], source: &[char]) -> Option<Lint>;
    fn description(&self) -> &str;
}

pub fn run_on_chunk(linter: &impl PatternLinter, chunk: &[Token], source: &[char]) -> Vec<Lint> {
    let mut lints = Vec::new();
    let mut tok_cursor = 0;

    loop
        invariant tok_cursor <= chunk@.len()
        decreases chunk@.len() - tok_cursor
    {
        if tok_cursor >= chunk.len() {
            break;
        }

        let match_len = linter.pattern().matches(&chunk[tok_cursor..], source);

        if match_len != 0 {
            let lint = linter.match_to_lint(&chunk[tok_cursor..tok_cursor + match_len], source);

            lints.extend(lint);
            tok_cursor += match_len;
        } else {
            tok_cursor += 1;
        }
    }

    lints
}

pub trait PatternExt {
    fn find_all_matches(&self, tokens: &[Token], source: &[char]) -> Vec<usize>;
}

impl<P> PatternExt for P
where
    P: Pattern,
{
    fn find_all_matches(&self, tokens: &[Token], source: &[char]) -> Vec<usize> {
        let mut found = Vec::new();

        for i in 0..tokens.len() {
            let len = self.matches(&tokens[i..], source);

            if len > 0 {
                found.push(len);
            }
        }
        found
    }
}
}
fn main() {}
