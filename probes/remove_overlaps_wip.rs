use vstd::prelude::*;
use std::collections::VecDeque;
verus! {
global size_of usize == 8;

#[derive(Clone, Copy, PartialEq, Eq)]
pub struct Span { pub start: usize, pub end: usize }
impl Span {
    pub open spec fn overlaps(self, other: Span) -> bool { self.start < other.end && other.start < self.end }
}
pub struct Lint { pub span: Span, pub priority: u8 }

pub uninterp spec fn spec_le<K>(a: K, b: K) -> bool;
#[verifier::external_body]
pub broadcast proof fn spec_le_pair(a: (usize, usize), b: (usize, usize))
    ensures #[trigger] spec_le(a, b) == (a.0 < b.0 || (a.0 == b.0 && a.1 <= b.1)) {}

pub uninterp spec fn sort_key<T, K>(x: T) -> K;
pub assume_specification<T, K: Ord, F: FnMut(&T) -> K> [<[T]>::sort_by_key] (s: &mut [T], f: F)
    requires forall|x: T, k: K| f.ensures((&x,), k) ==> k == sort_key::<T, K>(x),
    ensures final(s)@.to_multiset() == old(s)@.to_multiset(),
            forall|i: int, j: int| 0 <= i < j < final(s)@.len() ==> spec_le(#[trigger] sort_key::<T, K>(final(s)@[i]), #[trigger] sort_key::<T, K>(final(s)@[j]));
#[verifier::external_body]
pub broadcast proof fn sort_key_def(l: Lint)
    ensures #[trigger] sort_key::<Lint, (usize, usize)>(l) == key_of(l) {}

pub open spec fn incr(s: Seq<usize>) -> bool { forall|a: int, b: int| 0 <= a < b < s.len() ==> s[a] < s[b] }
pub open spec fn incr_int(s: Seq<int>) -> bool { forall|a: int, b: int| 0 <= a < b < s.len() ==> s[a] < s[b] }

/// `r` is `s` with exactly the positions in `idx` deleted.
pub open spec fn removed<T>(s: Seq<T>, idx: Seq<usize>, r: Seq<T>) -> bool {
    exists|kept: Seq<int>| #![auto] incr_int(kept) && kept.len() == r.len()
        && (forall|k: int| 0 <= k < kept.len() ==> 0 <= kept[k] < s.len() && !idx.contains(kept[k] as usize) && r[k] == s[kept[k]])
        && (forall|i: int| 0 <= i < s.len() && !idx.contains(i as usize) ==> kept.contains(i))
}

pub trait VecExt: Sized {
    spec fn ri_pre(&self, idx: Seq<usize>) -> bool;
    spec fn ri_post(old_self: &Self, idx: Seq<usize>, new_self: &Self) -> bool;
    fn remove_indices(&mut self, to_remove: VecDeque<usize>)
        requires old(self).ri_pre(to_remove@),
        ensures Self::ri_post(old(self), to_remove@, final(self));
}

impl<T> VecExt for Vec<T> {
    open spec fn ri_pre(&self, idx: Seq<usize>) -> bool { incr(idx) && forall|k: int| 0 <= k < idx.len() ==> idx[k] < self@.len() }
    open spec fn ri_post(old_self: &Self, idx: Seq<usize>, new_self: &Self) -> bool { removed(old_self@, idx, new_self@) }
    #[verifier::external_body]
    fn remove_indices(&mut self, to_remove: VecDeque<usize>) { unimplemented!() }
}

pub open spec fn all_wf(s: Seq<Lint>) -> bool { forall|i: int| 0 <= i < s.len() ==> s[i].span.start <= s[i].span.end }

pub open spec fn covers(sorted: Seq<Lint>, idx: Seq<usize>, bound: int, a: int, r: int) -> bool { 0 <= a < bound && !idx.contains(a as usize) && sorted[a].span.start <= sorted[r].span.start < sorted[a].span.end }
pub open spec fn dropped(idx: Seq<usize>, r: int) -> bool { idx.contains(r as usize) }
pub open spec fn key_of(l: Lint) -> (usize, usize) { (l.span.start, (usize::MAX - l.span.end) as usize) }

pub fn remove_overlaps(lints: &mut Vec<Lint>)
    requires all_wf(old(lints)@)
    ensures
        // (b) no two survivors share a character
        forall|i: int, j: int| 0 <= i < final(lints)@.len() && 0 <= j < final(lints)@.len() && i != j ==> !final(lints)@[i].span.overlaps(final(lints)@[j].span),
        // (a) survivors are a sub-list of a permutation of the input
        exists|sorted: Seq<Lint>, idx: Seq<usize>| sorted.to_multiset() == old(lints)@.to_multiset() && removed(sorted, idx, final(lints)@)
          // (c) every dropped element starts inside a kept one
          && (forall|r: int| 0 <= r < sorted.len() && #[trigger] dropped(idx, r) ==> exists|a: int| covers(sorted, idx, sorted.len() as int, a, r)),
        old(lints)@.len() >= 1 ==> final(lints)@.len() >= 1,
{
    if lints.len() < 2 {
        proof {
            let s = lints@; let idx = Seq::<usize>::empty();
            let kept = Seq::new(s.len(), |k: int| k);
            assert(removed(s, idx, s)) by {
                assert(incr_int(kept));
                assert forall|i: int| 0 <= i < s.len() && !idx.contains(i as usize) implies kept.contains(i) by { assert(kept[i] == i); }
            }
        }
        return;
    }

    let mut remove_indices = VecDeque::new();
    proof { assert(!0usize == 0xffff_ffff_ffff_ffffusize) by (bit_vector); broadcast use sort_key_def; }
    lints.sort_by_key(|l: &Lint| -> (k: (usize, usize)) ensures k == key_of(*l) { (l.span.start, !0 - l.span.end) });

    let mut cur = 0;
    let ghost sorted = lints@;
    let ghost mut last: int = -1;
    proof {
        broadcast use spec_le_pair, sort_key_def;
        sorted.to_multiset_ensures(); old(lints)@.to_multiset_ensures();
        assert(sorted.to_multiset() == old(lints)@.to_multiset());
        // wf carries over the permutation
        assert forall|i: int| 0 <= i < sorted.len() implies sorted[i].span.start <= sorted[i].span.end by {
            assert(sorted.contains(sorted[i]));
            assert(sorted.to_multiset().count(sorted[i]) > 0);
            assert(old(lints)@.to_multiset().count(sorted[i]) > 0);
            assert(old(lints)@.contains(sorted[i]));
        }
        assert forall|i: int, j: int| 0 <= i < j < sorted.len() implies sorted[i].span.start <= sorted[j].span.start by {
            assert(spec_le(sort_key::<Lint, (usize, usize)>(sorted[i]), sort_key::<Lint, (usize, usize)>(sorted[j])));
        }
    }

    let mut __k: usize = 0;
    while __k < lints.len()
        invariant
            lints@ == sorted, __k <= sorted.len(),
            all_wf(sorted),
            forall|i: int, j: int| 0 <= i < j < sorted.len() ==> sorted[i].span.start <= sorted[j].span.start,
            incr(remove_indices@),
            forall|k: int| 0 <= k < remove_indices@.len() ==> remove_indices@[k] < __k,
            -1 <= last < __k,
            last == -1 ==> cur == 0 && remove_indices@.len() == __k,
            last >= 0 ==> cur == sorted[last].span.end && !remove_indices@.contains(last as usize),
            // kept ends never exceed cur
            forall|a: int| 0 <= a < __k && !remove_indices@.contains(a as usize) ==> sorted[a].span.end <= cur,
            // kept are pairwise ordered
            forall|a: int, b: int| 0 <= a < b < __k && !remove_indices@.contains(a as usize) && !remove_indices@.contains(b as usize) ==> sorted[a].span.end <= sorted[b].span.start,
            // dropped start inside a kept one
            forall|r: int| 0 <= r < __k && #[trigger] dropped(remove_indices@, r) ==> exists|a: int| covers(sorted, remove_indices@, __k as int, a, r),
        decreases sorted.len() - __k
    {
        let i = __k; let lint = &lints[__k]; __k += 1;
        let ghost before = remove_indices@;
        if lint.span.start < cur {
            remove_indices.push_back(i);
            proof {
                assert(remove_indices@ == before.push(i));
                assert(last >= 0);
                assert forall|x: usize| remove_indices@.contains(x) <==> (before.contains(x) || x == i) by {
                    if before.contains(x) { let k = choose|k: int| 0 <= k < before.len() && before[k] == x; assert(remove_indices@[k] == x); }
                    if x == i { assert(remove_indices@[before.len() as int] == x); }
                }
                assert(covers(sorted, remove_indices@, __k as int, last, i as int));
                assert forall|r: int| 0 <= r < __k && #[trigger] dropped(remove_indices@, r) implies exists|a: int| covers(sorted, remove_indices@, __k as int, a, r) by {
                    if r == i { } else { assert(dropped(before, r)); let a = choose|a: int| covers(sorted, before, i as int, a, r); assert(covers(sorted, remove_indices@, __k as int, a, r)); }
                }
            }
            continue;
        }
        cur = lint.span.end;
        proof { last = i as int;
            assert forall|r: int| 0 <= r < __k && #[trigger] dropped(remove_indices@, r) implies exists|a: int| covers(sorted, remove_indices@, __k as int, a, r) by {
                let a = choose|a: int| covers(sorted, before, i as int, a, r); assert(covers(sorted, remove_indices@, __k as int, a, r));
            }
        }
    }

    proof { assert(last >= 0) by { if last == -1 { assert(remove_indices@.len() == sorted.len()); } } }
    let ghost idx = remove_indices@;
    lints.remove_indices(remove_indices);
    proof {
        assert(removed(sorted, idx, lints@));
        let kept = choose|kept: Seq<int>| #![auto] incr_int(kept) && kept.len() == lints@.len()
            && (forall|k: int| 0 <= k < kept.len() ==> 0 <= kept[k] < sorted.len() && !idx.contains(kept[k] as usize) && lints@[k] == sorted[kept[k]])
            && (forall|i: int| 0 <= i < sorted.len() && !idx.contains(i as usize) ==> kept.contains(i));
        assert forall|i: int, j: int| 0 <= i < lints@.len() && 0 <= j < lints@.len() && i != j implies !lints@[i].span.overlaps(lints@[j].span) by {
            if i < j { assert(kept[i] < kept[j]); } else { assert(kept[j] < kept[i]); }
        }
        assert(lints@.len() >= 1) by {
            assert(!idx.contains(last as usize));
            assert(kept.contains(last));
        }
    }
}
}
fn main() {}
