use vstd::prelude::*;
verus! {

#[derive(Clone, Copy, PartialEq, Eq)]
pub struct Span { pub start: usize, pub end: usize }

pub struct TokenKind { pub tag: u8 }
pub struct Token { pub span: Span, pub kind: TokenKind }

pub trait Pattern {
    fn matches(&self, tokens: &[Token], source: &[char]) -> (r: usize)
        ensures r <= tokens@.len();
}

pub struct SequencePattern {
    token_patterns: Vec<Box<dyn Pattern>>,
}

impl Pattern for SequencePattern {
    fn matches(&self, tokens: &[Token], source: &[char]) -> (r: usize)
    {
        let mut tok_cursor = 0;

        for pat in self.token_patterns.iter()
            invariant tok_cursor <= tokens@.len(),
        {
            let match_length = pat.matches(&tokens[tok_cursor..], source);

            if match_length == 0 {
                return 0;
            }

            tok_cursor += match_length;
        }

        tok_cursor
    }
}

pub struct Invert {
    inner: Box<dyn Pattern>,
}

impl Pattern for Invert {
    fn matches(&self, tokens: &[Token], source: &[char]) -> (r: usize) {
        if self.inner.matches(tokens, source) != 0 {
            0
        } else {
            1
        }
    }
}

pub struct RepeatingPattern {
    inner: Box<dyn Pattern>,
    required_repetitions: usize,
}

impl Pattern for RepeatingPattern {
    fn matches(&self, tokens: &[Token], source: &[char]) -> (r: usize) {
        let mut tok_cursor = 0;
        let mut repetition = 0;

        loop
            invariant tok_cursor <= tokens@.len(), repetition <= tok_cursor,
            decreases tokens@.len() - tok_cursor,
        {
            let match_len = self.inner.matches(&tokens[tok_cursor..], source);

            if match_len == 0 {
                if repetition >= self.required_repetitions {
                    return tok_cursor;
                } else {
                    return 0;
                }
            } else {
                tok_cursor += match_len;
                repetition += 1;
            }
        }
    }
}
}
fn main() {}
