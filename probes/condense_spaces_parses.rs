use vstd::prelude::*;
use std::collections::VecDeque;
verus! {
#[derive(Clone, Copy, PartialEq, Eq)]
pub struct Span { pub start: usize, pub end: usize }
#[derive(Clone)]
pub enum TokenKind { Space(usize), Newline(usize), Other }
#[derive(Clone)]
pub struct Token { pub span: Span, pub kind: TokenKind }
pub struct Doc { tokens: Vec<Token> }
pub trait VecExt { fn remove_indices(&mut self, to_remove: VecDeque<usize>); }
impl<T> VecExt for Vec<T> {
    #[verifier::external_body]
    fn remove_indices(&mut self, to_remove: VecDeque<usize>) { unimplemented!() }
}
impl Doc {
    fn condense_spaces(&mut self) {
        let mut cursor = 0;
        let copy = self.tokens.clone();

        let mut remove_these = VecDeque::new();

        while cursor < self.tokens.len()
  invariant copy@.len() == self.tokens@.len()
 decreases self.tokens@.len() - cursor
 {
            // Locate a stretch of one or more newline tokens.
            let start_tok = &mut self.tokens[cursor];

            if let TokenKind::Space(start_count) = &mut start_tok.kind {
                loop
 invariant cursor < copy@.len(), copy@.len() == old(self).tokens@.len() decreases copy@.len() - cursor
 {
                    cursor += 1;

                    if cursor >= copy.len() {
                        break;
                    }

                    let child_tok = &copy[cursor];

                    // Only condense adjacent spans
                    if start_tok.span.end != child_tok.span.start {
                        break;
                    }

                    if let TokenKind::Space(n) = child_tok.kind {
                        *start_count += n;
                        start_tok.span.end = child_tok.span.end;
                        remove_these.push_back(cursor);
                        cursor += 1;
                    } else {
                        break;
                    };
                }
            }

            cursor += 1;
        }

        self.tokens.remove_indices(remove_these);
    }
}
}
fn main() {}
