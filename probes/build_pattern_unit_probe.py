from ex import item
C='harper-core/src/'
parts=[]
P=parts.append
P(item(C+'span.rs', r'pub struct Span'))
P(item(C+'punctuation.rs', r'pub struct Quote'))
P(item(C+'punctuation.rs', r'pub enum Punctuation'))
P(item(C+'number.rs', r'pub enum NumberSuffix'))
P(item(C+'token_kind.rs', r'pub enum TokenKind'))
P(item(C+'token.rs', r'pub struct Token'))
for f,pat in [('patterns/invert.rs','pub struct Invert'),('patterns/invert.rs','impl Pattern for Invert'),
  ('patterns/sequence_pattern.rs','pub struct SequencePattern'),('patterns/sequence_pattern.rs','impl Pattern for SequencePattern'),
  ('patterns/repeating_pattern.rs','pub struct RepeatingPattern'),('patterns/repeating_pattern.rs','impl Pattern for RepeatingPattern'),
  ('patterns/either_pattern.rs','pub struct EitherPattern'),('patterns/either_pattern.rs','impl Pattern for EitherPattern'),
  ('patterns/all.rs','pub struct All'),('patterns/all.rs','impl Pattern for All'),
  ('patterns/any_pattern.rs','pub struct AnyPattern'),('patterns/any_pattern.rs','impl Pattern for AnyPattern'),
  ('patterns/consumes_remaining_pattern.rs','pub struct ConsumesRemainingPattern'),('patterns/consumes_remaining_pattern.rs','impl Pattern for ConsumesRemainingPattern'),
  ('patterns/nominal_phrase.rs','pub struct NominalPhrase'),('patterns/nominal_phrase.rs','impl Pattern for NominalPhrase'),
  ('patterns/similar_to_phrase.rs','pub struct SimilarToPhrase'),('patterns/similar_to_phrase.rs','impl Pattern for SimilarToPhrase'),
  ('patterns/exact_phrase.rs','pub struct ExactPhrase'),('patterns/exact_phrase.rs','impl Pattern for ExactPhrase'),
  ('patterns/indefinite_article.rs','pub struct IndefiniteArticle'),('patterns/indefinite_article.rs','impl Pattern for IndefiniteArticle'),
  ('linting/pattern_linter.rs','pub fn run_on_chunk'),
  ]:
    P(item(C+f,pat))
open('unit_pat_raw.rs','w').write('\n\n'.join(parts))
print(len(parts))
