use vstd::prelude::*;
use std::collections::VecDeque;
verus! {
global size_of usize == 8;
#[derive(Clone, Copy, PartialEq, Eq)]
pub struct Span { pub start: usize, pub end: usize }
impl Span {
    pub open spec fn overlaps(self, other: Span) -> bool { self.start < other.end && other.start < self.end }
}
pub struct Lint { pub span: Span, pub priority: u8 }

pub uninterp spec fn spec_le<K>(a: K, b: K) -> bool;
#[verifier::external_body]
pub broadcast proof fn spec_le_pair(a: (usize, usize), b: (usize, usize))
    ensures #[trigger] spec_le(a, b) == (a.0 < b.0 || (a.0 == b.0 && a.1 <= b.1)) {}

pub assume_specification<T, K: Ord, F: FnMut(&T) -> K> [<[T]>::sort_by_key] (s: &mut [T], f: F)
    ensures final(s)@.to_multiset() == old(s)@.to_multiset(),
            forall|i: int, j: int, ki: K, kj: K| 0 <= i < j < final(s)@.len() && f.ensures((&final(s)@[i],), ki) && f.ensures((&final(s)@[j],), kj) ==> spec_le(ki, kj);

pub trait VecExt { fn remove_indices(&mut self, to_remove: VecDeque<usize>); }

fn test(lints: &mut Vec<Lint>)
{
    assert(!0usize == 0xffff_ffff_ffff_ffffusize) by (bit_vector);
    lints.sort_by_key(|l: &Lint| -> (k: (usize, usize)) ensures k == (l.span.start, (usize::MAX - l.span.end) as usize) { (l.span.start, !0 - l.span.end) });
}
}
fn main() {}
