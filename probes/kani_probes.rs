// Hand-written Kani probe harnesses used during the design phase (appended to the named file of a
// scratch copy of /repo under `#[cfg(kani)] mod verif_kani { ... }`). Timings are CBMC solve times
// measured in this sandbox. NOT part of the machinery; kept for continuity only.

// ---- harper-core/src/lib.rs ---------------------------------------------------------------
// suffix_full_domain      : SUCCESSFUL, 275 s   (complete: loop-free, all n < 2^53)
// from_chars_roundtrip    : SUCCESSFUL, 0.7 s   (complete: all char x char)
// apply_remove4           : SUCCESSFUL, 4.3 s   (bounded: len 4)
// apply_replace4          : SUCCESSFUL, 311 s, 7 GB (bounded: len 4, replacement 2)
// remove_overlaps3        : killed at 22 GB / 4+ min  -> dropped from the plan
// remove_indices5         : killed at 14 GB / 2.5 min -> dropped / retried at 3
mod core_probes {
    use crate::NumberSuffix;
    fn spec(n: u64) -> NumberSuffix {
        let h = n % 100;
        if h == 11 || h == 12 || h == 13 { return NumberSuffix::Th; }
        match n % 10 { 1 => NumberSuffix::St, 2 => NumberSuffix::Nd, 3 => NumberSuffix::Rd, _ => NumberSuffix::Th }
    }
    #[kani::proof]
    fn suffix_full_domain() {
        let n: u64 = kani::any();
        kani::assume(n < (1u64 << 53));
        let r = NumberSuffix::correct_suffix_for(n as f64);
        assert!(r == Some(spec(n)));
    }
    #[kani::proof]
    fn from_chars_roundtrip() {
        let a: char = kani::any();
        let b: char = kani::any();
        let r = NumberSuffix::from_chars(&[a, b]);
        let la = a.to_ascii_lowercase();
        let lb = b.to_ascii_lowercase();
        match r {
            Some(s) => { let c = s.to_chars(); assert!(c.len() == 2 && c[0] == la && c[1] == lb); }
            None => { assert!(!((la=='t'&&lb=='h')||(la=='s'&&lb=='t')||(la=='n'&&lb=='d')||(la=='r'&&lb=='d'))); }
        }
    }
}

// ---- harper-ls/src/pos_conv.rs --------------------------------------------------------------
// roundtrip4 : SUCCESSFUL, 71 s (bounded: len 4, alphabet {LF,'a',U+1F600}, final line excluded = D4)
mod ls_probes {
    use super::*;
    fn any_char() -> char { let k: u8 = kani::any(); match k % 3 { 0 => '\n', 1 => 'a', _ => '\u{1F600}' } }
    #[kani::proof]
    #[kani::unwind(7)]
    fn roundtrip4() {
        let src: [char; 4] = [any_char(), any_char(), any_char(), any_char()];
        let i: usize = kani::any();
        kani::assume(i <= 4);
        let p = index_to_position(&src, i);
        let mut nl = 0u32;
        for c in src.iter() { if *c == '\n' { nl += 1; } }
        if p.line < nl { assert!(position_to_index(&src, p) == i); }
    }
}

// ---- harper-comments/src/comment_parsers/jsdoc.rs ---------------------------------------------
// inline_tag_terminates4 : FAILED in 3.1 s with "unwinding assertion loop 0" in parse_inline_tag = D2
mod comments_probes {
    use super::*;
    use harper_core::{Punctuation, Span, Token, TokenKind};
    fn any_tok(i: usize) -> Token {
        let k: u8 = kani::any();
        let kind = match k % 6 {
            0 => TokenKind::Punctuation(Punctuation::OpenCurly),
            1 => TokenKind::Punctuation(Punctuation::CloseCurly),
            2 => TokenKind::Punctuation(Punctuation::At),
            3 => TokenKind::Word(None),
            4 => TokenKind::Space(1),
            _ => TokenKind::Unlintable,
        };
        Token::new(Span::new(i, i + 1), kind)
    }
    #[kani::proof]
    #[kani::unwind(8)]
    fn inline_tag_terminates4() {
        let toks = [any_tok(0), any_tok(1), any_tok(2), any_tok(3)];
        let r = parse_inline_tag(&toks);
        if let Some(p) = r { assert!(p >= 1 && p <= 4); }
    }
}
