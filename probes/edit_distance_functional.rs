#![feature(allocator_api)]
use vstd::prelude::*;
use vstd::std_specs::iter::IteratorSpec;
use std::alloc::Allocator;
verus! {

pub uninterp spec fn ext_seq<I: IntoIterator>(i: I) -> Seq<I::Item>;

pub assume_specification<T, A: Allocator, I: IntoIterator<Item = T>> [<Vec<T, A> as Extend<T>>::extend] (v: &mut Vec<T, A>, iter: I)
    ensures final(v)@ == old(v)@ + ext_seq(iter);

#[verifier::external_body]
pub broadcast proof fn ext_seq_iter<I: Iterator>(i: I)
    ensures #[trigger] ext_seq(i) == i.remaining() {}

pub open spec fn min3(a: nat, b: nat, c: nat) -> nat { if a <= b { if a <= c { a } else { c } } else { if b <= c { b } else { c } } }

pub open spec fn lev(a: Seq<char>, b: Seq<char>) -> nat
    decreases a.len() + b.len()
{
    if a.len() == 0 { b.len() }
    else if b.len() == 0 { a.len() }
    else {
        min3(lev(a.drop_last(), b) + 1, lev(a, b.drop_last()) + 1,
             lev(a.drop_last(), b.drop_last()) + (if a.last() == b.last() { 0nat } else { 1nat }))
    }
}

pub proof fn lev_bound(a: Seq<char>, b: Seq<char>)
    ensures lev(a, b) <= (if a.len() >= b.len() { a.len() } else { b.len() })
    decreases a.len() + b.len()
{
    if a.len() == 0 || b.len() == 0 { } else {
        lev_bound(a.drop_last(), b); lev_bound(a, b.drop_last()); lev_bound(a.drop_last(), b.drop_last());
    }
}

pub proof fn lev_step(a: Seq<char>, b: Seq<char>, i: int, j: int)
    requires 1 <= i <= a.len(), 1 <= j <= b.len()
    ensures lev(a.take(i), b.take(j)) == min3(lev(a.take(i - 1), b.take(j)) + 1, lev(a.take(i), b.take(j - 1)) + 1,
                lev(a.take(i - 1), b.take(j - 1)) + (if a[i - 1] == b[j - 1] { 0nat } else { 1nat }))
{
    assert(a.take(i).drop_last() =~= a.take(i - 1));
    assert(b.take(j).drop_last() =~= b.take(j - 1));
    assert(a.take(i).last() == a[i - 1]);
    assert(b.take(j).last() == b[j - 1]);
}

pub proof fn lev_empty(a: Seq<char>, b: Seq<char>, i: int, j: int)
    requires 0 <= i <= a.len(), 0 <= j <= b.len()
    ensures lev(a.take(0), b.take(j)) == j, lev(a.take(i), b.take(0)) == i
{
    assert(a.take(0).len() == 0); assert(b.take(0).len() == 0);
    assert(b.take(j).len() == j); assert(a.take(i).len() == i);
}

#[inline]
pub fn edit_distance_min_alloc(
    source: &[char],
    target: &[char],
    previous_row: &mut Vec<u8>,
    current_row: &mut Vec<u8>,
) -> (d: u8)
    requires source@.len() <= 254, target@.len() <= 254
    ensures d as nat == lev(source@, target@)
{
    if cfg!(debug_assertions) {
        assert!(source.len() <= 255 && target.len() <= 255);
    }

    let row_width = source.len();
    let col_height = target.len();

    previous_row.clear();
    previous_row.extend(0u8..=row_width as u8);
    // Alright if not zeroed, since we overwrite it anyway.
    current_row.resize(row_width + 1, 0);
    proof {
        broadcast use ext_seq_iter;
        assert forall|k: int| 0 <= k <= row_width implies previous_row@[k] as nat == lev(source@.take(k), target@.take(0)) by { lev_empty(source@, target@, k, 0); }
    }

    for j in 1..=col_height
        invariant
            row_width == source@.len(), col_height == target@.len(), row_width <= 254, col_height <= 254,
            previous_row@.len() == row_width + 1, current_row@.len() == row_width + 1,
            forall|k: int| 0 <= k <= row_width ==> previous_row@[k] as nat == lev(source@.take(k), target@.take(j - 1)),
    {
        current_row[0] = j as u8;
        proof { lev_empty(source@, target@, 0, j as int); }

        for i in 1..=row_width
            invariant
                1 <= j <= col_height,
                row_width == source@.len(), col_height == target@.len(), row_width <= 254, col_height <= 254,
                previous_row@.len() == row_width + 1, current_row@.len() == row_width + 1,
                forall|k: int| 0 <= k <= row_width ==> previous_row@[k] as nat == lev(source@.take(k), target@.take(j - 1)),
                forall|k: int| 0 <= k < i ==> current_row@[k] as nat == lev(source@.take(k), target@.take(j as int)),
        {
            let cost = if source[i - 1] == target[j - 1] { 0 } else { 1 };
            proof {
                lev_step(source@, target@, i as int, j as int);
                lev_bound(source@.take(i as int), target@.take(j - 1));
                lev_bound(source@.take(i - 1), target@.take(j as int));
                lev_bound(source@.take(i - 1), target@.take(j - 1));
            }

            current_row[i] = (previous_row[i] + 1)
                .min(current_row[i - 1] + 1)
                .min(previous_row[i - 1] + cost);
        }

        std::mem::swap(previous_row, current_row);
    }

    proof {
        assert(source@.take(row_width as int) =~= source@);
        assert(target@.take(col_height as int) =~= target@);
    }
    previous_row[row_width]
}
}
fn main() {}
