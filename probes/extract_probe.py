import re,sys
R='/repo/'
def lex_mask(s):
    """return list 'code' mask: True where char is code (not in comment/string/char literal)"""
    n=len(s); m=[True]*n; i=0
    while i<n:
        c=s[i]
        if s.startswith('//',i):
            j=s.find('\n',i); j=n if j<0 else j
            for k in range(i,j): m[k]=False
            i=j; continue
        if s.startswith('/*',i):
            d=1; j=i+2
            while j<n and d>0:
                if s.startswith('/*',j): d+=1; j+=2
                elif s.startswith('*/',j): d-=1; j+=2
                else: j+=1
            for k in range(i,j): m[k]=False
            i=j; continue
        if c=='"':
            j=i+1
            while j<n and s[j]!='"':
                if s[j]=='\\': j+=1
                j+=1
            for k in range(i,j+1): m[k]=False
            i=j+1; continue
        if c=='r' and re.match(r'r#*"',s[i:]):
            mm=re.match(r'r(#*)"',s[i:]); h=mm.group(1); end=s.find('"'+h,i+len(mm.group(0)))
            for k in range(i,end+1+len(h)): m[k]=False
            i=end+1+len(h); continue
        if c=="'":
            mm=re.match(r"'(\\.[^']*|[^'\\])'",s[i:])
            if mm:
                for k in range(i,i+len(mm.group(0))): m[k]=False
                i+=len(mm.group(0)); continue
        i+=1
    return m
def match_brace(s,m,i):
    d=0
    while i<len(s):
        if m[i]:
            if s[i]=='{': d+=1
            elif s[i]=='}':
                d-=1
                if d==0: return i
        i+=1
    raise Exception('unbalanced')
def find_item(s,m,pat,start=0,end=None):
    """find regex `pat` at code position; return (begin,end_inclusive) spanning through matching brace or ';'"""
    end=len(s) if end is None else end
    for mm in re.finditer(pat,s):
        if mm.start()<start or mm.start()>=end or not m[mm.start()]: continue
        i=mm.end()
        while i<len(s) and not (m[i] and s[i] in '{;'): i+=1
        if s[i]==';': return mm.start(),i
        return mm.start(),match_brace(s,m,i)
    raise Exception('item not found: '+pat)
def clean(t):
    out=[]
    for line in t.split('\n'):
        x=line.strip()
        if x.startswith('///') or x.startswith('//!'): continue
        if re.match(r'#\[(serde|default|inline|blanket|cfg|allow)',x): continue
        out.append(line)
    t='\n'.join(out)
    def der(mm):
        keep=[d for d in re.split(r'\s*,\s*',mm.group(1).strip()) if d in ('Clone','Copy','PartialEq','Eq')]
        return ('#[derive('+', '.join(keep)+')]') if keep else ''
    t=re.sub(r'#\[derive\(([^\]]*)\)\]',der,t,flags=re.S)
    t=re.sub(r'\b(crate|super)::(\w+::)*','',t)
    return t
def item(path,pat,inner=None):
    s=open(R+path).read(); m=lex_mask(s)
    a,b=find_item(s,m,pat)
    if inner is None: return clean(s[a:b+1])
    # extract header + selected inner fns
    ob=s.index('{',a)
    while not m[ob]: ob=s.index('{',ob+1)
    parts=[]
    for ip in inner:
        ia,ib=find_item(s,m,ip,ob,b)
        parts.append(s[ia:ib+1])
    return clean(s[a:ob+1]+'\n'+'\n\n'.join('    '+p for p in parts)+'\n}')
if __name__=='__main__':
    print(item(sys.argv[1],sys.argv[2]))
