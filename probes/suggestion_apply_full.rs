#![feature(allocator_api)]
use vstd::prelude::*;
use vstd::std_specs::iter::IteratorSpec;
use std::alloc::Allocator;
verus! {

pub uninterp spec fn ext_seq<I: IntoIterator>(i: I) -> Seq<I::Item>;

pub assume_specification<T, A: Allocator, I: IntoIterator<Item = T>> [<Vec<T, A> as Extend<T>>::extend] (v: &mut Vec<T, A>, iter: I)
    ensures final(v)@ == old(v)@ + ext_seq(iter);

pub assume_specification<'a, T: Copy + 'a, A: Allocator, I: IntoIterator<Item = &'a T>> [<Vec<T, A> as Extend<&'a T>>::extend] (v: &mut Vec<T, A>, iter: I)
    ensures final(v)@ == old(v)@ + ext_seq(iter).map_values(|x: &T| *x);

#[verifier::external_body]
pub broadcast proof fn ext_seq_vec<T>(v: Vec<T>)
    ensures #[trigger] ext_seq(v) == v@ {}
#[verifier::external_body]
pub broadcast proof fn ext_seq_vec_ref<'a, T>(v: &'a Vec<T>)
    ensures (#[trigger] ext_seq(v)).map_values(|x: &T| *x) == v@ {}
#[verifier::external_body]
pub broadcast proof fn ext_seq_skip<T>(v: core::iter::Skip<std::vec::IntoIter<T>>)
    ensures #[trigger] ext_seq(v) == v.remaining() {}

#[derive(Clone, Copy, PartialEq, Eq)]
pub struct Span { pub start: usize, pub end: usize }
impl Span {
    pub fn len(&self) -> (r: usize) requires self.start <= self.end ensures r == self.end - self.start { self.end - self.start }
}

pub enum Suggestion {
    ReplaceWith(Vec<char>),
    InsertAfter(Vec<char>),
    Remove,
}

pub open spec fn applied(s: Suggestion, span: Span, src: Seq<char>) -> Seq<char> {
    match s {
        Suggestion::ReplaceWith(c) => src.subrange(0, span.start as int) + c@ + src.subrange(span.end as int, src.len() as int),
        Suggestion::InsertAfter(c) => src.subrange(0, span.end as int) + c@ + src.subrange(span.end as int, src.len() as int),
        Suggestion::Remove => src.subrange(0, span.start as int) + src.subrange(span.end as int, src.len() as int),
    }
}

impl Suggestion {
    pub fn apply(&self, span: Span, source: &mut Vec<char>)
        requires span.start <= span.end <= old(source).len(),
        ensures final(source)@ =~= applied(*self, span, old(source)@)
    {
        broadcast use ext_seq_vec, ext_seq_vec_ref, ext_seq_skip;
        match self {
            Self::ReplaceWith(chars) => {
                // Avoid allocation if possible
                if chars.len() == span.len() {
                    let mut __i: usize = 0;
                    while __i < chars.len()
                        invariant __i <= chars@.len(), chars@.len() == span.end - span.start, source@.len() == old(source)@.len(),
                          span.start <= span.end <= source@.len(),
                          forall|k: int| 0 <= k < source@.len() ==> source@[k] == (if span.start <= k < span.start + __i { chars@[k - span.start] } else { old(source)@[k] }),
                        decreases chars@.len() - __i
                    {
                        let index = __i; let c = &chars[__i]; __i += 1;
                        source[index + span.start] = *c
                    }
                } else {
                    let popped = source.split_off(span.start);

                    source.extend(chars);
                    source.extend(popped.into_iter().skip(span.len()));
                }
            }
            Self::Remove => {
                for i in span.end..source.len()
                    invariant source@.len() == old(source)@.len(), span.start <= span.end <= source@.len(),
                      forall|k: int| 0 <= k < source@.len() ==> source@[k] == (if span.start <= k < i - (span.end - span.start) { old(source)@[k + (span.end - span.start)] } else { old(source)@[k] }),
                {
                    source[i - span.len()] = source[i];
                }

                source.truncate(source.len() - span.len());
            }
            Self::InsertAfter(chars) => {
                let popped = source.split_off(span.end);
                source.extend(chars);
                source.extend(popped);
            }
        }
    }
}
}
fn main() {}
