use vstd::prelude::*;
use vstd::std_specs::iter::IteratorSpec;
verus! {
pub assume_specification [char::is_alphanumeric](c: char) -> (b: bool);

pub assume_specification<'a, T, P: FnMut(&'a T) -> bool> [<core::slice::Iter<'a, T> as Iterator>::position] (it: &mut core::slice::Iter<'a, T>, pred: P) -> (r: Option<usize>)
    where core::slice::Iter<'a, T>: Sized
    ensures match r { Some(i) => i < old(it).remaining().len(), None => true };

fn lex_word(source: &[char]) -> (r: Option<usize>)
    ensures match r { Some(e) => 1 <= e <= source@.len(), None => true }
{
    let end = source
        .iter()
        .position(|c| !c.is_alphanumeric())
        .unwrap_or(source.len());

    if end == 0 {
        None
    } else {
        Some(end)
    }
}
}
fn main() {}
