use vstd::prelude::*;
verus! {
#[verifier::external_type_specification]
#[verifier::external_body]
pub struct ExParseFloatError(core::num::ParseFloatError);
#[verifier::external_trait_specification]
pub trait ExFromStr: Sized { type ExternalTraitSpecificationFor: core::str::FromStr; type Err; fn from_str(s: &str) -> Result<Self, Self::Err>; }
pub assume_specification<F: core::str::FromStr> [str::parse::<F>](s: &str) -> (r: Result<F, <F as core::str::FromStr>::Err>);
#[verifier::external_body]
fn string_of_chars(e: &[char]) -> (s: String) ensures s@ == e@ { e.iter().collect() }

fn f(source: &[char], end: usize) -> (r: Option<usize>)
    requires end < source@.len()
{
    let mut s: String = string_of_chars(&source[0..end + 1]);
    while !s.is_empty()
        invariant s@.len() <= source@.len()
        decreases s@.len()
    {
        if let Ok(n) = s.parse::<f64>() {
            return Some(1);
        }
        s.pop();
    }
    None
}
}
fn main() {}
