use vstd::prelude::*;
verus! {

#[derive(Clone, Copy, PartialEq, Eq)]
pub struct Span { pub start: usize, pub end: usize }
impl Span {
    pub fn new(start: usize, end: usize) -> (r: Self)
        requires start <= end,
        ensures r.start == start, r.end == end,
    {
        if start > end {
            panic!("{} > {}", start, end);
        }
        Self { start, end }
    }
}
pub enum TokenKind { Regexish, Unlintable, Word, Decade }
pub struct Token { pub span: Span, pub kind: TokenKind }
pub struct FoundToken {
    pub next_index: usize,
    pub token: TokenKind,
}
pub open spec fn good(src: &[char], r: Option<FoundToken>) -> bool {
    match r { Some(f) => 1 <= f.next_index <= src@.len(), None => true }
}
#[verifier::external_body]
pub fn lex_token(source: &[char]) -> (r: Option<FoundToken>)
    ensures good(source, r), source@.len() >= 1 ==> r.is_some()
{ unimplemented!() }

pub open spec fn tiles(toks: Seq<Token>, upto: int) -> bool {
    &&& (toks.len() == 0 ==> upto == 0)
    &&& (toks.len() > 0 ==> toks[0].span.start == 0 && toks[toks.len() - 1].span.end == upto)
    &&& forall|i: int| 0 <= i < toks.len() ==> toks[i].span.start < toks[i].span.end
    &&& forall|i: int| 0 <= i < toks.len() - 1 ==> toks[i].span.end == #[trigger] toks[i + 1].span.start
}

pub struct PlainEnglish;
pub trait Parser {
    fn parse(&self, source: &[char]) -> (r: Vec<Token>);
}
impl PlainEnglish {
    fn parse(&self, source: &[char]) -> (r: Vec<Token>)
        ensures tiles(r@, source@.len() as int)
    {
        let mut cursor = 0;

        // Lex tokens
        let mut tokens = Vec::new();

        loop
            invariant cursor <= source@.len(), tiles(tokens@, cursor as int),
            decreases source@.len() - cursor
        {
            if cursor >= source.len() {
                return tokens;
            }

            if let Some(FoundToken { token, next_index }) = lex_token(&source[cursor..]) {
                tokens.push(Token {
                    span: Span::new(cursor, cursor + next_index),
                    kind: token,
                });
                cursor += next_index;
            } else {
                panic!()
            }
        }
    }
}
}
fn main() {}
