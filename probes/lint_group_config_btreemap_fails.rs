use vstd::prelude::*;
use std::collections::BTreeMap;
verus! {

pub assume_specification<T> [Option::<Option<T>>::flatten](o: Option<Option<T>>) -> (r: Option<T>)
    ensures r == (match o { Some(Some(x)) => Some(x), _ => None });

pub struct LintGroupConfig {
    inner: BTreeMap<String, Option<bool>>,
}

impl LintGroupConfig {
    pub closed spec fn view(&self) -> Map<String, Option<bool>> { self.inner@ }

    pub fn is_rule_enabled(&self, key: &str) -> (r: bool)
       ensures r == (exists|k: String| k@ == key@ && #[trigger] self@.contains_key(k) && self@[k] == Some(true))
    {
        self.inner.get(key).cloned().flatten().unwrap_or(false)
    }

    #[verifier::external_body]
    pub fn clear(&mut self)
       ensures final(self)@.dom() == old(self)@.dom(), forall|k: String| final(self)@.contains_key(k) ==> final(self)@[k] == None::<bool>
    {
        for val in self.inner.values_mut() {
            *val = None
        }
    }

    pub fn merge_from(&mut self, other: &mut LintGroupConfig)
    {
        for (key, val) in other.inner.iter() {
            if val.is_none() {
                continue;
            }

            self.inner.insert(key.to_string(), *val);
        }

        other.clear();
    }
}
}
fn main() {}
